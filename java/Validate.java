import javax.xml.XMLConstants;
import javax.xml.validation.*;
import javax.xml.transform.stream.StreamSource;
import java.io.*;
import java.nio.charset.StandardCharsets;
import java.util.*;

/** Line-oriented validator over javax.xml.validation (Xerces in the JDK).
 *  usage: java Validate <schema.xsd>; stdin: one XML document per line (newlines inside documents
 *  must be sent as &#10;); stdout: "V" or "I <cvc codes joined by ','>\t<first message>" per line. */
public class Validate {
  public static void main(String[] a) throws Exception {
    SchemaFactory f = SchemaFactory.newInstance(XMLConstants.W3C_XML_SCHEMA_NS_URI);
    Schema s = f.newSchema(new File(a[0]));
    BufferedReader r = new BufferedReader(new InputStreamReader(System.in, StandardCharsets.UTF_8));
    PrintStream o = new PrintStream(new BufferedOutputStream(System.out, 1 << 16), false, "UTF-8");
    String line;
    while ((line = r.readLine()) != null) {
      final List<String> errs = new ArrayList<>();
      Validator v = s.newValidator();
      v.setErrorHandler(new org.xml.sax.ErrorHandler() {
        public void warning(org.xml.sax.SAXParseException e) {}
        public void error(org.xml.sax.SAXParseException e) { errs.add(e.getMessage()); }
        public void fatalError(org.xml.sax.SAXParseException e) throws org.xml.sax.SAXParseException { throw e; }
      });
      try {
        v.validate(new StreamSource(new StringReader(line)));
      } catch (org.xml.sax.SAXException e) {
        errs.add("fatal: " + e.getMessage());
      } catch (java.util.MissingResourceException e) {
        // JDK bug: no message text for this rule; the rule id is in the exception
        errs.add(e.getKey() + ": (no message text in this JDK)");
      }
      if (errs.isEmpty()) { o.println("V"); }
      else {
        StringBuilder codes = new StringBuilder();
        for (String m : errs) {
          int i = m.indexOf(':');
          String c = (i > 0 && m.startsWith("cvc")) ? m.substring(0, i) : (m.startsWith("fatal") ? "fatal" : "other");
          if (codes.length() > 0) codes.append(',');
          codes.append(c);
        }
        o.println("I " + codes + "\t" + errs.get(0).replace('\n', ' ').replace('\t', ' '));
      }
    }
    o.flush();
  }
}
