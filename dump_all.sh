#!/bin/bash
# maintainer script: run the given checks at a tier and collect violation dumps under /root/dumps
tier=$1; shift
for c in "$@"; do
  rm -f /root/dumps/$c.${tier:0:1}
  VERIF_DUMP=/root/dumps/$c.${tier:0:1} "$(dirname "$(readlink -f "$0")")"/check $c $tier 2>&1 | tail -1
done
