#!/bin/bash
# maintainer script: (re)generate the C02 known-finding witness lists from reviewed dumps
D="$@"
A="python3 mc/findings.py accept --property C02"
$A --id C02-credit-repeated-words-symbols --scope credit --what "credit: repeated (credit-words|credit-symbol) groups with link/bookmark are refused (MaxOccurs/Choice) or re-ordered by the first-fit matcher" $D
$A --id C02-direction-type-repeated-choice-element --scope direction-type --what "direction-type: a second coda/segno/... in an unbounded choice branch makes the final check raise NotImplementedError" $D
$A --id C02-harmony-second-chord --scope harmony --what "harmony: a second harmony-chord group (root|numeral|function, kind, ...) is refused or its members are interleaved with the first" $D
$A --id C02-key-empty-and-non-traditional --scope key --what "key: empty key refused by the final check; repeated key-step/key-alter/key-accidental triples re-ordered" $D
$A --id C02-lyric-extend-and-elision-order --scope lyric --what "lyric: a lone extend is refused; syllabic/text/elision repetitions are re-ordered" $D
$A --id C02-metronome-groups --scope metronome --what "metronome: beat-unit groups re-ordered; metronome-note/metronome-relation sequence refused by the final check" $D
$A --id C02-ornaments-empty-and-accidental-marks --scope ornaments --what "ornaments: empty ornaments refused; accidental-mark following a repeated ornament is attached to the wrong repetition" $D
$A --id C02-part-list-group-order --scope part-list --what "part-list: part-group after score-part is moved in front; leading part-groups make the final check demand score-part" $D
$A --id C02-score-part-midi-pairs --scope score-part --what "score-part: midi-device/midi-instrument pairs are grouped by name instead of kept in supplied order" $D
$A --id C02-sound-midi-pairs --scope sound --what "sound: instrument-change/midi-device/midi-instrument/play groups are grouped by name instead of kept in supplied order" $D
