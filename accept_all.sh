#!/bin/bash
# maintainer script: (re)generate all known-finding witness lists from reviewed violation dumps (quick + thorough).
# usage: ./accept_all.sh /root/dumps   -- never run by a check.
D=$1
acc() { # id property scopes kinds what
  local id=$1 prop=$2 scopes=$3 kinds=$4 what=$5
  local files=$(ls $D/$prop.q $D/$prop.t 2>/dev/null)
  [ -z "$files" ] && return
  if [ -n "${ONLY:-}" ]; then case " $ONLY " in *" $prop "*) ;; *) return;; esac; fi
  python3 mc/findings.py accept $MERGE --id "$id" --property $prop --scope "$scopes" --kind "$kinds" --what "$what" $files
}
# ONLY="C09 C11" ./accept_all.sh <dir>: incremental mode - the listed properties' findings get the keys of the dumps MERGED into
# their existing witness lists (used after a check's alphabet / depth / key format was extended; every new cluster is
# reviewed against the code first); without ONLY everything is rebuilt from scratch from complete quick + thorough dumps.
if [ -n "${ONLY:-}" ]; then
  MERGE=--merge
else
  MERGE=
  # rebuild from scratch: keep the fixed: records, drop every open finding and witness list
  grep '^fixed:' known_findings.jsonl > known_findings.jsonl.new; mv known_findings.jsonl.new known_findings.jsonl; rm -f known_witnesses/*.jsonl
  ./accept_C02.sh $(ls $D/C02.q $D/C02.t 2>/dev/null) >/dev/null
fi
acc C01-listen-emptied-intelligent-choice C01 listen '*' "listen: after all children were removed, to_string(intelligent_choice=True) returns an empty <listen/> (schema requires one child)"
acc C01-ornaments-orphan-accidental-mark C01 ornaments '*' "ornaments: after removals / replacements in a repeated (ornament, accidental-mark*) group an accidental-mark without its ornament is serialised (thorough tier)"
acc C03-xml-namespace-attributes-renamed C03 accidental-text,directive,formatted-text,formatted-text-id,lyric-language,text-element-data,text-formatting '*' "attribute tables: xml:lang / xml:space are declared as 'lang' / 'space' (lyric-language loses use=required)"
acc C03-xlink-attributes-undeclared C03 link,opus,part-link,link-attributes '*' "attribute tables: xlink:* references yield attribute objects without a declaration (NotImplementedError constructed, not raised)"
acc C04-xml-namespace-attributes C04 '*' 'declared-valid-refused,serialised-name-wrong,undeclared-accepted' "xml:lang / xml:space cannot be set under their schema names; 'lang' is accepted and serialised without prefix; 'name' attribute shadowed by the element-name property; xlink attributes unusable (link, opus, part-link)"
acc C05-whitespace-only-font-family-measure-text C05 font-family,measure-text '*' "font-family / measure-text accept whitespace-only strings (collapse to the empty string, which the pattern / minLength forbids)"
acc C05-anyuri-unchecked C05 xs:anyURI '*' "xs:anyURI accepts any string (no lexical check)"
acc C05-language-pattern-narrower-than-xsd C05 xs:language '*' "xs:language is modelled by the RFC-1766 pattern of xml.xsd: language tags valid for XML Schema (1-8 letter primary tag) are refused"
acc C05-date-day-of-month C05 yyyy-mm-dd,xs:date '*' "dates are validated by a regular expression only: 2000-02-30 is accepted"
acc C06-duplicated-sequence-remove-then-add C06 interchangeable,time,credit,lyric,key,ornaments,sound '*' "time / interchangeable / credit / lyric / key / ornaments / sound: after removing a child of a repeated group (duplicated container), a remaining or re-added child is missing from the ordered view and the output"
acc C07-note-ties-then-grace C07 note '*' "note: tie, tie, grace, tie: after the intelligent-choice re-attachment dropped a tie from the matcher, a third tie is accepted although the schema allows two (thorough tier only)"
acc C06-note-ties-then-grace C06 note '*' "note: add(tie), add(tie), add(grace): the intelligent-choice re-attachment drops one tie from the ordered view and the output"
acc C10-failed-replace-readds-old-child C10 '*' '*' "a refused call that went through remove-and-re-add or duplication (different-name replace_child, wrong forward) leaves matcher flags that change later acceptance"
acc C10-failed-call-after-removal-in-repeated-choice C10 articulations,dynamics,encoding,listen,ornaments,technical '*' "types whose content is one unbounded choice: add x, add x, remove the first, then ANY refused call (add_child(None), a foreign element, a wrong forward index): what the removal of the remaining child leaves behind differs from the state before the refused call - the refused call walks the container and sets the matcher flags that remove() does not reset (same root cause as the C16 finding; seen through the removal probes of the fingerprint, thorough tier)"
acc C10-metronome-refused-serialisation C10 metronome '*' "metronome: a refused to_string changes the later verdict / acceptance"
acc C11-removal-leaves-matcher-flags C11 '*' '*' "remove(): force_validate / chosen_child / duplicated containers are not reset: an optional child added and removed is reported as required, alternatives stay blocked, serialisation verdict differs from a rebuilt twin"
acc C12-first-fit-matcher-rejections C12 '*' '*' "children with a unique valid arrangement (or still compatible with the children held) are refused or misordered in types with repeated names / repeated groups: credit, harmony, key, lyric, metronome, note, time, interchangeable, part-list, score-part, sound, ornaments, direction-type"
acc C14-forward-placement-lost C14 '*' '*' "deepcopy is a rebuild of the element through the matcher: children are re-added without their forward placement (copies of elements built with add_child(forward=k) serialise differently or refuse), and where the first-fit matcher is order-sensitive (credit, lyric after an intelligent-choice re-attachment, part-list, key) the rebuilt copy arranges the same children differently or refuses them"
acc C14-copy-rebuild-reorders-part-list C14 part-list 'copy-serialises-differently' "part-list: the copy is a rebuild through the first-fit matcher: after a removal inside the (part-group | score-part) repetition the original serialises score-part, part-group, ... while its copy comes out re-ordered (the C02 part-list root cause, met by the deep-alphabet exploration)"
acc C14-copy-rebuild-rearranges-key C14 key 'copy-serialises-differently' "key: the copy is a rebuild through the order-sensitive first-fit matcher: an incomplete non-traditional key (key-accidental, key-accidental, key-alter) and its copy arrange the same children differently in the ordered view (thorough tier; the C12 key root cause)"
acc C15-name-attribute-shadowed C15 bookmark,lyric,lyric-font,lyric-language,miscellaneous-field '*' "the 'name' attribute cannot be read or set by dot syntax: e.name is the element name property"
acc C15-xlink-elements C15 link,part-link,opus '*' "link / part-link / opus: any attribute read or xml_* read-back raises AttributeError from the undeclared xlink attribute objects"
acc C16-lyric-intelligent-choice-side-effect C16 lyric '*' "lyric: a successful to_string(intelligent_choice=True) re-attaches children and changes later results"
acc C16-serialise-then-remove-in-repeated-choice C16 articulations,dynamics,encoding,listen,ornaments,technical 'serialisation-side-effect' "types whose content is one unbounded choice: add x, add x, remove the first; a to_string() at this point changes what the removal of the remaining child leaves behind (without it the emptied element serialises, with it children are reported as required) - the matcher flags that remove() does not reset are set by the final check (seen through the removal probes of the fingerprint)"
acc C19-xlink-attribute-objects C19 part-link,link,opus '*' "part-link (link, opus): to_string / attribute checks raise AttributeError about None from xlink attribute objects"

acc C08-name-attribute-unparseable C08 '*' '*' "own output with a 'name' attribute (bookmark, lyric-font, lyric-language, miscellaneous-field, ...) cannot be parsed back: the parser's setattr hits the read-only element-name property"
acc C09-xlink-and-xml-attributes-refused C09 '*' 'valid-input-refused' "valid files are refused: xlink:* / xml:lang / xml:space / name attributes cannot be set by the parser; key, lyric(extend), ornaments and direction-type contents that the matcher's final check refuses (C02 root causes)"
acc C09-reordered-midi-groups C09 sound,part-list,score-part,credit,harmony,metronome,lyric,key,ornaments 'valid-input-altered' "valid files are altered: repeated groups (sound midi pairs, part-list groups, ...) are re-ordered by the matcher (C02 root causes)"
acc C18-xlink-elements C18 part-link,link,opus '*' "part-link (link, opus): reading xml_* on an unchecked element raises AttributeError from the undeclared xlink attribute objects"
