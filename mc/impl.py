"""Harness over the real implementation: construction, operations as data, sandboxed calls,
replay-based states, generic canonical form G, observational fingerprint Phi_k."""
import io
import os
import sys
import copy
import types
import signal
import inspect
import hashlib
import warnings
import traceback
import contextlib
import xml.etree.ElementTree as ET

warnings.simplefilter('ignore')

import musicxml.xmlelement.xmlelement as X  # noqa: E402
from musicxml.xmlelement.xmlelement import XMLElement  # noqa: E402

from mc.ref import xsd as R  # noqa: E402
from mc.ref.automata import NFA  # noqa: E402

HARNESS_RECURSION_LIMIT = 20000
LIB_RECURSION_LIMIT = 700
sys.setrecursionlimit(HARNESS_RECURSION_LIMIT)

CLASSES = {c.__name__: c for n, c in vars(X).items()
           if n.startswith('XML') and inspect.isclass(c) and issubclass(c, XMLElement) and c is not XMLElement}


def class_name_for(name):
    return 'XML' + R.camel(name)


def class_for(name):
    return CLASSES[class_name_for(name)]


# reference type name -> representative element name (first in sorted order)
REP = {}
for _n in sorted(R.partwise_elements()):
    _k, _t = R.element_type(_n)
    if _k == 'complex':
        REP.setdefault(_t, _n)
TYPES = R.element_content_types()  # the 94

_NFA = {}


def nfa(T):
    if T not in _NFA:
        _NFA[T] = NFA(R.content_model(T))
    return _NFA[T]


CANDS = ['', 'a', 1, 0, 1.5, 'yes', '2000-01-01', 'A', '#000000', 'C', 'major', 'G', 'start', 'none', 'up', 'P1',
         'simple', 1.0, 'accSharp']

_valcache = {}


def _from_sample(tname):
    """candidate Python values from the reference model's sample lexical value of a simple type"""
    from mc.ref import values as V
    try:
        sv = V.sample_value(tname)
    except Exception:
        return []
    out = [sv]
    try:
        out.append(int(sv))
    except ValueError:
        try:
            out.append(float(sv))
        except ValueError:
            pass
    return out


def valid_value(cls):
    """a value the class accepts (found by deterministic trial, reference enumerations first)"""
    if cls in _valcache:
        return _valcache[cls]
    cands = list(CANDS)
    name = cls.__name__
    # enumeration literals of the element's declared simple type, from the reference
    try:
        for el_name in R.partwise_elements():
            if class_name_for(el_name) == name:
                kind, t = R.element_type(el_name)
                st = t if kind == 'simple' else R.simple_content_base(t)
                if st and not st.startswith('xs:') and st in R.STYPES:
                    f = R.st_facets(st)
                    cands = list(f['enum']) + cands
                if st:
                    cands = _from_sample(st) + cands
                break
    except Exception:
        pass
    for v in cands:
        try:
            with _quiet():
                cls(v, xsd_check=False)
            _valcache[cls] = v
            return v
        except (TypeError, ValueError):
            continue
    raise RuntimeError('no valid value for %s' % name)


ATTR_CANDS = ['a', 1, 'yes', 'start', 'P1', 'up', 1.0, 'simple', 'A', '#000000']
_reqcache = {}


def req_attrs(cls, T):
    """schema-required attributes (from the reference table) with values found by trial"""
    if cls in _reqcache:
        return _reqcache[cls]
    out = {}
    for (an, at, req) in R.ctype_attrs(T):
        if not req or ':' in an:
            continue
        cands = list(ATTR_CANDS)
        if at and not at.startswith('xs:') and at in R.STYPES:
            cands = list(R.st_facets(at)['enum']) + cands
        cands = _from_sample(at) + cands
        for v in cands:
            try:
                with _quiet():
                    cls(valid_value(cls), xsd_check=False, **{an.replace('-', '_'): v})
                out[an.replace('-', '_')] = v
                break
            except Exception:
                continue
    _reqcache[cls] = out
    return out


def fresh(T, check=True, el_name=None):
    el_name = el_name or REP[T]
    cls = class_for(el_name)
    return cls(valid_value(cls), xsd_check=check, **req_attrs(cls, T))


def child(name, mode='opaque'):
    cls = class_for(name)
    if mode == 'opaque':
        return cls(valid_value(cls), xsd_check=False)
    if mode == 'checked':
        kind, t = R.element_type(name)
        return cls(valid_value(cls), xsd_check=True, **(req_attrs(cls, t) if kind == 'complex' else {}))
    raise ValueError(mode)


def minimal(name, depth=0):
    """checked, complete instance built from the reference model's shortest word, recursively"""
    cls = class_for(name)
    kind, t = R.element_type(name)
    el = cls(valid_value(cls), xsd_check=True, **(req_attrs(cls, t) if kind == 'complex' else {}))
    if kind == 'complex' and R.content_model(t) is not None:
        if depth > 12:
            raise RuntimeError('minimal recursion')
        for a in nfa(t).shortest_accepted():
            el.add_child(minimal(a, depth + 1))
    return el


# ---------------------------------------------------------------- sandboxed call

class Hang(BaseException):
    pass


def _on_alarm(sig, frm):
    raise Hang()


signal.signal(signal.SIGALRM, _on_alarm)
CALL_TIMEOUT = 20.0


@contextlib.contextmanager
def _quiet():
    buf = io.StringIO()
    with contextlib.redirect_stdout(buf), contextlib.redirect_stderr(buf):
        yield buf


class Outcome:
    __slots__ = ('ok', 'value', 'exc', 'exc_msg', 'site', 'output', 'hang', 'frames', 'side')

    def __init__(self):
        self.ok = True
        self.value = None
        self.exc = None
        self.exc_msg = None
        self.site = None
        self.output = ''
        self.hang = False
        self.frames = ()
        self.side = None

    def brief(self):
        return 'ok' if self.ok else 'exc:' + self.exc

    def as_json(self):
        return {'ok': self.ok, 'exc': self.exc, 'site': self.site, 'msg': (self.exc_msg or '')[:200],
                'output': self.output[:200], 'hang': self.hang}


def call(fn, *args, **kw):
    o = Outcome()
    buf = io.StringIO()
    signal.setitimer(signal.ITIMER_REAL, CALL_TIMEOUT)
    wlist = None
    # library calls run under a moderate recursion limit (the harness itself needs a high one for deep object graphs):
    # an unbounded recursion in the library then fails fast as RecursionError instead of eating seconds and memory
    sys.setrecursionlimit(LIB_RECURSION_LIMIT)
    try:
        with contextlib.redirect_stdout(buf), contextlib.redirect_stderr(buf), warnings.catch_warnings(record=True) as wlist:
            warnings.simplefilter('always')
            o.value = fn(*args, **kw)
    except Hang:
        o.ok = False
        o.exc = 'Hang'
        o.hang = True
    except RecursionError as e:
        o.ok = False
        o.exc = 'RecursionError'
        o.exc_msg = str(e)
        o.site = 'recursion'
    except Exception as e:
        o.ok = False
        o.exc = type(e).__name__
        o.exc_msg = str(e)
        tb = traceback.extract_tb(e.__traceback__)
        site = None
        frames = []
        for fr in tb:
            if 'musicxml' in fr.filename or 'verysimpletree' in fr.filename:
                site = fr.name
                frames.append(fr.name)
        o.site = site
        o.frames = tuple(frames)
    finally:
        signal.setitimer(signal.ITIMER_REAL, 0)
        sys.setrecursionlimit(HARNESS_RECURSION_LIMIT)
    o.output = buf.getvalue()
    if wlist:
        # a warning reaches the user's standard error under the default filters: it counts as output
        o.output += ''.join('warning:%s:%s\n' % (w.category.__name__, str(w.message)[:80]) for w in wlist
                            if not issubclass(w.category, (SyntaxWarning, DeprecationWarning, ResourceWarning)))
    return o


# ---------------------------------------------------------------- operations as data
# ('A', name) add_child; ('F', name, k) add_child(forward=k); ('R', i) remove i-th created child;
# ('P', i, name) replace_child(i-th created child, new name); ('Xs', name, mode) el.xml_name = raw|inst|none;
# ('S', ic) to_string(intelligent_choice=ic); ('Sc', i, ic) child to_string; ('At', attr, value); ('V', value)
# ('D',) deepcopy (result discarded); ('Ax', what) out-of-alphabet add; ('Rx',) remove of foreign; ...

class State:
    def __init__(self, el):
        self.el = el
        self.made = []     # every child object created by the history, by creation index (None if none created)
        self.model = []    # reference model: creation indices of children currently held, insertion order
        self.outcomes = []
        self.detached = []  # creation indices of children removed / replaced away
        self.how = {}       # creation index -> the operation that attached the child

    def names(self):
        return [self.made[i].name for i in self.model]

    def knames(self):
        """names for violation keys: children placed with add_child(forward=k) carry the placement ('link@1'), because
        two elements holding the same names in the same insertion order are different documents when placements differ"""
        out = []
        for i in self.model:
            h = self.how.get(i)
            out.append('%s@%d' % (self.made[i].name, h[2]) if h and h[0] in ('F', 'Fx') else self.made[i].name)
        return out


def _attr_name(name):
    return 'xml_' + name.replace('-', '_')


def apply(st, op, child_mode='opaque'):
    """apply one operation to a State; updates the reference model list; returns Outcome"""
    el = st.el
    k = op[0]
    o = None
    if k == 'A' or k == 'F':
        ch = child(op[1], child_mode)
        st.made.append(ch)
        idx = len(st.made) - 1
        if k == 'A':
            o = call(el.add_child, ch)
        else:
            o = call(el.add_child, ch, op[2])
        if o.ok:
            st.model.append(idx)
            st.how[idx] = op
    elif k == 'R':
        st.made.append(None)
        i = op[1]
        tgt = st.made[i] if i < len(st.made) else None
        o = call(el.remove, tgt)
        if o.ok and i in st.model:
            st.model.remove(i)
            st.detached.append(i)
    elif k == 'P':
        i = op[1]
        ch = child(op[2], child_mode)
        st.made.append(ch)
        idx = len(st.made) - 1
        tgt = st.made[i] if i < len(st.made) else None
        o = call(el.replace_child, tgt, ch)
        if o.ok and i in st.model:
            st.model[st.model.index(i)] = idx
            st.detached.append(i)
            st.how[idx] = ('A', op[2])
    elif k == 'Xs':
        name, mode = op[1], op[2]
        cur = [i for i in st.model if st.made[i].name == name]
        if mode == 'inst':
            ch = child(name, child_mode)
            st.made.append(ch)
            idx = len(st.made) - 1
            o = call(setattr, el, _attr_name(name), ch)
            if o.ok:
                # documented: replaces the first found child (find_child, insertion order) or adds
                if cur:
                    st.model[st.model.index(cur[0])] = idx
                    st.detached.append(cur[0])
                else:
                    st.model.append(idx)
        elif mode == 'none':
            st.made.append(None)
            o = call(setattr, el, _attr_name(name), None)
            if o.ok and cur:
                st.model.remove(cur[0])
                st.detached.append(cur[0])
        else:  # raw value
            cls = class_for(name)
            v = valid_value(cls)
            before = list(el._unordered_children) if hasattr(el, '_unordered_children') else []
            o = call(setattr, el, _attr_name(name), v)
            if o.ok and not cur:
                # a new child object was created by the library: adopt it
                new = [c for c in el.get_children(ordered=False) if all(c is not b for b in before)]
                if new:
                    st.made.append(new[0])
                    st.model.append(len(st.made) - 1)
                else:
                    st.made.append(None)
            else:
                st.made.append(None)
    elif k == 'S':
        st.made.append(None)
        o = call(el.to_string, op[1]) if op[1] else call(el.to_string)
    elif k == 'Sc':
        st.made.append(None)
        tgt = st.made[op[1]]
        o = call(tgt.to_string, op[2]) if op[2] else call(tgt.to_string)
    elif k == 'At':
        st.made.append(None)
        o = call(setattr, el, op[1], op[2])
    elif k == 'V':
        st.made.append(None)
        o = call(setattr, el, 'value_', op[1])
    elif k == 'D':
        st.made.append(None)
        o = call(copy.deepcopy, el)
    elif k == 'T':  # switch schema checking through the public setter
        st.made.append(None)
        o = call(setattr, el, 'xsd_check', op[1])
    elif k == 'Ax':  # out-of-alphabet additions
        what = op[1]
        if what == 'others':
            # a child that already belongs to ANOTHER live element of the same type is offered: whatever the outcome,
            # a failing call must leave that other element alone
            other = fresh(type_of(el), True) if type_of(el) else None
            arg = child(op[2], child_mode)
            if other is not None and call(other.add_child, arg).ok:
                before = (serialise(other)[:3], [id(c) for c in other.get_children(ordered=True)])
                st.made.append(None)
                o = call(el.add_child, arg)
                if not o.ok:
                    r = call(other.remove, arg)
                    o2 = call(other.add_child, arg) if r.ok else r
                    after = (serialise(other)[:3], [id(c) for c in other.get_children(ordered=True)])
                    if not r.ok or not o2.ok or before != after:
                        o.side = 'other-element-changed'
                    st.outcomes.append(o)
                    return o
                # accepted: the child now sits under two parents - outside what is judged here; undo for the model
                st.made[-1] = arg
                st.model.append(len(st.made) - 1)
                st.outcomes.append(o)
                return o
            arg = child(op[2], child_mode)
        elif what == 'foreign':
            arg = child(op[2], child_mode)
        elif what == 'nonelement':
            arg = 'text'
        elif what == 'none':
            arg = None
        else:
            raise ValueError(op)
        st.made.append(arg if isinstance(arg, XMLElement) else None)
        o = call(el.add_child, arg)
        if o.ok and isinstance(arg, XMLElement):
            st.model.append(len(st.made) - 1)
    elif k == 'Rx':  # remove something that is not a child
        what = op[1]
        if what == 'detached':
            arg = st.made[st.detached[0]] if st.detached else child(op[2], child_mode)
        elif what == 'foreign':
            arg = child(op[2], child_mode)
        elif what == 'others':
            # a child that belongs to ANOTHER live element of the same type: the call must fail and must leave that
            # other element alone (observed here because the other element is not part of the explored state)
            other = fresh(type_of(el), True) if type_of(el) else None
            arg = child(op[2], child_mode)
            okadd = other is not None and call(other.add_child, arg).ok
            if okadd:
                before = (serialise(other)[:3], [id(c) for c in other.get_children(ordered=True)])
                st.made.append(None)
                o = call(el.remove, arg)
                after = (serialise(other)[:3], [id(c) for c in other.get_children(ordered=True)])
                if before != after or arg.get_parent() is not other:
                    o.side = 'other-element-changed'
                st.outcomes.append(o)
                return o
        else:
            arg = None
        st.made.append(None)
        o = call(el.remove, arg)
    elif k == 'Px':  # replace with a bad argument
        what = op[1]
        st.made.append(None)
        if what == 'old-missing':
            o = call(el.replace_child, child(op[2], child_mode), child(op[2], child_mode))
        else:  # new is not an element
            tgt = st.made[st.model[0]] if st.model else None
            o = call(el.replace_child, tgt, 'text')
    elif k == 'Fx':  # forward out of range
        ch = child(op[1], child_mode)
        st.made.append(ch)
        o = call(el.add_child, ch, op[2])
        if o.ok:
            st.model.append(len(st.made) - 1)
    else:
        raise ValueError(op)
    st.outcomes.append(o)
    return o


def type_of(el):
    for n, ts in R.partwise_elements().items():
        if n == el.name and len(ts) == 1:
            k, t = R.element_type(n)
            return t if k == 'complex' and t in TYPES else None
    return None


def build(T, hist, check=True, child_mode='opaque', el_name=None):
    st = State(fresh(T, check, el_name))
    for op in hist:
        apply(st, tuple(op), child_mode)
    return st


# ---------------------------------------------------------------- observation

def serialise(el, ic=False):
    """('ok', text) | ('exc', class name, message, in_attribute_check)"""
    o = call(el.to_string, ic) if ic else call(el.to_string)
    if o.ok:
        return ('ok', o.value)
    return ('exc', o.exc, o.exc_msg, '_check_required_attributes' in o.frames)


def child_tags(text):
    return [c.tag for c in ET.fromstring(text)]


def phi0(st):
    """observable snapshot; calls to_string last (it may touch matcher flags)"""
    el = st.el
    oc = call(lambda: [c.name for c in el.get_children(ordered=True)])
    uc = call(lambda: [c.name for c in el.get_children(ordered=False)])
    par = call(lambda: [c.get_parent() is el for c in el.get_children(ordered=False)])
    at = call(lambda: sorted((k, repr(v)) for k, v in el.attributes.items()))
    va = call(lambda: repr(el.value_))
    s = serialise(el)
    return (tuple(oc.value) if oc.ok else 'exc:' + oc.exc, tuple(uc.value) if uc.ok else 'exc:' + uc.exc,
            tuple(par.value) if par.ok else 'exc:' + par.exc, tuple(at.value) if at.ok else 'exc', va.value, s)


REMOVAL_PROBES = os.environ.get('VERIF_PHI_REMOVALS', '1') == '1'


def phi(T, hist, k, sigma, check=True, child_mode='opaque', el_name=None):
    try:
        st = build(T, hist, check, child_mode, el_name)
    except Exception as e:  # construction of a fresh element itself fails: that is an observation, not a harness error
        return ('construction-raises', type(e).__name__, str(e)[:100])
    base = phi0(st)
    if k == 0:
        return base
    nxt = []
    for a in sigma:
        h2 = list(hist) + [('A', a)]
        try:
            st2 = build(T, h2, check, child_mode, el_name)
        except Exception as e:
            nxt.append((a, 'construction-raises', type(e).__name__))
            continue
        o = st2.outcomes[-1]
        if k == 1:
            nxt.append((a, o.brief(), phi0(st2)))
        else:
            nxt.append((a, o.brief(), phi(T, h2, k - 1, sigma, check, child_mode, el_name)))
    # removal probes: what a later remove() of each held child (by position) does - a state whose children point into a
    # discarded container copy looks the same under additions but not under removal
    rem = []
    if REMOVAL_PROBES:
        for pos, i in enumerate(st.model):
            h2 = list(hist) + [('R', i)]
            try:
                st2 = build(T, h2, check, child_mode, el_name)
            except Exception as e:
                rem.append((pos, 'construction-raises', type(e).__name__))
                continue
            rem.append((pos, st2.outcomes[-1].brief(), phi0(st2)))
    return (base, tuple(nxt), tuple(rem))


# ---------------------------------------------------------------- canonical form

PRIM = (str, int, float, bool, type(None), bytes)


def gcanon(rootobj):
    """generic structural serialisation of the reachable object graph, identity by first-visit numbering"""
    ids = {}

    def rec(o):
        if isinstance(o, PRIM):
            return ('p', type(o).__name__, o)
        if isinstance(o, type):
            return ('cls', o.__qualname__)
        if isinstance(o, (types.FunctionType, types.MethodType, types.BuiltinFunctionType)):
            return ('fn', getattr(o, '__qualname__', str(o)))
        if id(o) in ids:
            return ('ref', ids[id(o)])
        n = ids[id(o)] = len(ids)
        if isinstance(o, ET.Element):
            return ('et', n, ET.tostring(o, encoding='unicode'))
        cn = type(o).__name__
        if cn == 'XSDTree':
            try:
                e = o.xml_element_tree_element
                return ('xsdtree', e.tag, tuple(sorted(e.attrib.items())), len(e))
            except Exception:
                return ('xsdtree', repr(o))
        if isinstance(o, (list, tuple)):
            return ('seq', n, tuple(rec(x) for x in o))
        if isinstance(o, dict):
            return ('map', n, tuple((rec(k), rec(v)) for k, v in o.items()))
        if isinstance(o, (set, frozenset)):
            return ('set', n, tuple(sorted(repr(rec(x)) for x in o)))
        d = getattr(o, '__dict__', None)
        if d is None:
            return ('obj', n, cn, repr(o))
        return ('obj', n, cn, tuple((k, rec(v)) for k, v in sorted(d.items())))

    return rec(rootobj)


def G(st):
    return hashlib.sha1(repr(gcanon(st.el)).encode('utf-8', 'backslashreplace')).hexdigest()
