"""setup: compile the Java helper, generate derived schemas from the pinned spec, self-test the oracles."""
import os
import sys
import copy
import hashlib
import subprocess
import xml.etree.ElementTree as ET

from mc import core
from mc.ref import xsd as R

XS = R.XS
BUILTINS = ['decimal', 'integer', 'nonNegativeInteger', 'positiveInteger', 'string', 'token', 'NMTOKEN', 'Name', 'NCName',
            'ID', 'IDREF', 'language', 'date', 'anyURI']


def derive():
    d = os.path.join(core.VERIF, 'spec', 'derived')
    os.makedirs(d, exist_ok=True)
    for f in ('xml.xsd', 'xlink.xsd'):
        open(os.path.join(d, f), 'wb').write(open(os.path.join(R.SPEC_DIR, f), 'rb').read())
    src = open(R.XSD_PATH, encoding='utf-8').read()
    src = src.replace('schemaLocation="http://www.musicxml.org/xsd/xml.xsd"', 'schemaLocation="xml.xsd"') \
             .replace('schemaLocation="http://www.musicxml.org/xsd/xlink.xsd"', 'schemaLocation="xlink.xsd"')
    # lexical.xsd: one global element per simple type
    extra = ''.join('<xs:element name="st.%s" type="%s"/>\n' % (n, n) for n in R.STYPES)
    extra += ''.join('<xs:element name="xs.%s" type="xs:%s"/>\n' % (n, n) for n in BUILTINS)
    open(os.path.join(d, 'lexical.xsd'), 'w', encoding='utf-8').write(src.replace('</xs:schema>', extra + '</xs:schema>'))
    # fragments.xsd: every partwise element promoted to a global element
    ET.register_namespace('xs', 'http://www.w3.org/2001/XMLSchema')
    ET.register_namespace('xlink', 'http://www.w3.org/1999/xlink')
    root = ET.fromstring(src.encode('utf-8'))
    glob = {e.get('name') for e in root if e.tag == XS + 'element'}
    seen = set(glob)
    add = []

    def visit(node):
        for e in node.iter(XS + 'element'):
            n = e.get('name')
            if n and n not in seen:
                seen.add(n)
                g = ET.Element(XS + 'element', {'name': n})
                if e.get('type'):
                    g.set('type', e.get('type'))
                else:
                    for ch in e:
                        if ch.tag == XS + 'complexType':
                            g.append(copy.deepcopy(ch))
                add.append(g)

    pw = [e for e in root if e.tag == XS + 'element' and e.get('name') == 'score-partwise'][0]
    visit(pw)
    for ct in root:
        if ct.tag in (XS + 'complexType', XS + 'group'):
            visit(ct)
    txt = ''.join(ET.tostring(g, encoding='unicode') + '\n' for g in add)
    open(os.path.join(d, 'fragments.xsd'), 'w', encoding='utf-8').write(src.replace('</xs:schema>', extra + txt + '</xs:schema>'))
    return len(add)


def main():
    # pinned spec integrity
    for line in open(os.path.join(R.SPEC_DIR, 'SHA256')):
        h, name = line.split()
        got = hashlib.sha256(open(os.path.join(core.VERIF, name), 'rb').read()).hexdigest()
        if got != h:
            print('pinned spec file changed:', name)
            return 2
    jd = os.path.join(core.VERIF, 'java')
    p = subprocess.run(['javac', '-d', jd, os.path.join(jd, 'Validate.java')], capture_output=True, text=True)
    if p.returncode != 0:
        print(p.stderr)
        return 2
    n = derive()
    print('derived schemas written; promoted elements:', n)
    return selftest()


def selftest():
    """mutual calibration of the reference automata and the JDK validator"""
    from mc import jdk
    from mc.ref.automata import NFA
    bad = 0
    docs, expect = [], []
    # hand-picked sanity cases
    cases = [('<key/>', True), ('<ornaments/>', True), ('<lyric><extend/></lyric>', True),
             ('<words xml:lang="de">a</words>', True), ('<words lang="de">a</words>', False),
             ('<duration>1e-05</duration>', False), ('<pitch><step>C</step><octave>4</octave></pitch>', True),
             ('<pitch><octave>4</octave><step>C</step></pitch>', False)]
    res = jdk.validate([c[0] for c in cases])
    for (doc, exp), (ok, codes, msg) in zip(cases, res):
        if ok != exp:
            print('SELFTEST oracle disagreement on', doc, ok, codes, msg)
            bad += 1
    # automata vs validator: every word <= 2 (and a sample of rejected one-symbol extensions) per type, wrapped in
    # its element with minimal valid children generated from the reference grammar: whole-document validity must
    # equal acceptance by the automaton.  Also checks the reference's sample values and minimal documents.
    from mc.ref import values as V
    names, words = [], []
    for n in sorted(R.partwise_elements()):
        names.append(('min', n, None, True))
        words.append(V.min_xml(n))
    for T in R.element_content_types():
        A = V.nfa(T)
        el = sorted(n for n in R.partwise_elements() if R.element_type(n) == ('complex', T))[0]
        al = A.alphabet
        ws = [()] + [(a,) for a in al] + [(a, b) for a in al for b in al]
        if len(al) <= 8:
            ws += [(a, b, c) for a in al for b in al for c in al]
        for w in ws:
            names.append((T, el, w, A.accepts(w)))
            words.append(V.xml_for_word(el, w))
    res = jdk.validate(words)
    for (T, el, w, acc), (ok, codes, msg), doc in zip(names, res, words):
        if acc != ok:
            print('SELFTEST automaton/validator disagreement', T, el, w, 'automaton accepts' if acc else
                  'automaton rejects', codes, msg, doc[:200])
            bad += 1
    print('selftest: %d documents cross-checked against the JDK validator, %d disagreements' % (len(words), bad))
    return 0 if bad == 0 else 2
