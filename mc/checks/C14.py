"""C14 - deep copies are faithful and independent.

For every state reached by structural histories (depth by budget, per type) and by attribute/value histories
(keyword at construction, dot assignment, overwrite, removal; xsd_check on and off; one level of nesting):
deepcopy(e) serialises exactly like e (or both refuse alike), keeps xsd_check, leaves e's fingerprint unchanged;
afterwards every single operation of the alphabet applied to the copy leaves the original's snapshot unchanged and
vice versa."""
import copy
import itertools
import collections

from mc import core, impl, explore, structcheck
from mc.impl import nfa, call, build
from mc.ref import xsd as R
from mc.structcheck import Collector, opj

BFS_BUDGET = {'quick': 600, 'thorough': 10000}
DEEP_BUDGET = {'quick': 2500, 'thorough': 40000}


def snap(el):
    """Phi_0-like snapshot of a live element that does not mutate matcher state beyond what to_string does"""
    s = impl.serialise(el)
    return (tuple(c.name for c in el.get_children(ordered=False)), tuple(sorted((k, repr(v)) for k, v in el.attributes.items())),
            repr(el.value_), el.xsd_check, s[:3])


def mutations(T, el):
    """single operations to apply to one side"""
    sigma = explore.reduced_alphabet(T) if T else []
    ops = []
    for a in sigma[:6]:
        ops.append(('add', a))
    if el.get_children(ordered=False):
        ops.append(('remove0',))
        ops.append(('child-attr',))
    ops.append(('attr-set',))
    ops.append(('attr-none',))
    ops.append(('value',))
    return ops


def mutate(T, el, op, attr_info):
    if op[0] == 'add':
        return call(el.add_child, impl.child(op[1]))
    if op[0] in ('remove0', 'child-attr') and not el.get_children(ordered=False):
        return None
    if op[0] == 'remove0':
        return call(el.remove, el.get_children(ordered=False)[0])
    if op[0] == 'child-attr':
        ch = el.get_children(ordered=False)[0]
        return call(setattr, ch, 'value_', ch.value_)
    if op[0] == 'attr-set':
        an, v1, v2 = attr_info
        if an is None:
            return None
        cur = el.attributes.get(an)
        return call(setattr, el, an.replace('-', '_'), v2 if cur == v1 else v1)
    if op[0] == 'attr-none':
        an, v1, v2 = attr_info
        if an is None:
            return None
        return call(setattr, el, an.replace('-', '_'), None)
    if op[0] == 'value':
        return call(setattr, el, 'value_', el.value_)
    raise ValueError(op)


_attr_info = {}


def attr_info_for(name):
    """(attribute name, value1, value2) of an optional plain attribute with two distinct valid values, else Nones"""
    if name in _attr_info:
        return _attr_info[name]
    res = (None, None, None)
    kind, t = R.element_type(name)
    if kind == 'complex':
        cls = impl.class_for(name)
        val = impl.valid_value(cls)
        for (an, at, req) in R.ctype_attrs(t):
            if ':' in an or an == 'name':
                continue
            vs = []
            f = R.st_facets(at) if (at and not at.startswith('xs:') and at in R.STYPES) else None
            cands = (list(f['enum']) if f else []) + impl._from_sample(at) + ['b', 2, 2.5]
            for v in cands:
                if v not in vs and call(lambda: cls(val, xsd_check=False, **{an.replace('-', '_'): v})).ok:
                    vs.append(v)
                if len(vs) == 2:
                    break
            if len(vs) == 2:
                res = (an, vs[0], vs[1])
                break
    _attr_info[name] = res
    return res


def judge_copy(T, name, make, col_add, key):
    """make() -> fresh element in the state under test"""
    e = make()
    before = snap(make())
    o = call(copy.deepcopy, e)
    if not o.ok:
        col_add('copy-serialises-differently', key + ['deepcopy-raises'], observed=o.as_json())
        return 0
    c = o.value
    sc, se = snap(c), snap(e)
    n = 1
    if sc[4] != se[4] or sc[3] != se[3]:
        col_add('copy-serialises-differently', key, observed=[list(se[4])[:2], list(sc[4])[:2], se[3], sc[3]])
    if se != before:
        col_add('copy-changes-original', key, observed=[repr(before)[:300], repr(se)[:300]])
    ai = attr_info_for(name)
    for side in ('copy', 'original'):
        for op in mutations(T, e):
            e2 = make()
            c2 = call(copy.deepcopy, e2)
            if not c2.ok:
                return n
            c2 = c2.value
            target, other = (c2, e2) if side == 'copy' else (e2, c2)
            other_before = snap(other)
            r = mutate(T, target, op, ai)
            if r is None:
                continue
            n += 1
            if snap(other) != other_before:
                col_add('copy-aliases', key + [list(op), side], observed=[repr(other_before)[:200], repr(snap(other))[:200]])
    return n


def oracle_C14(col):
    def f(T, pre, op, st, o):
        if op[0] == 'S':
            return
        if not all(x.ok for x in st.outcomes):
            # a failed call in the history: whether IT left a trace is C10's subject; the copy is not judged
            col.stats['not_judged_failed_call_in_history'] += 1
            return
        hist = list(pre.hist) + [op]
        if impl.serialise(build(T, hist).el)[0] != 'ok':
            # the original refuses to serialise; the copy is a rebuild and may legitimately succeed where removal
            # left matcher flags behind (C11's subject): only serialisable originals are judged
            col.stats['not_judged_original_refuses'] += 1
            if all(h[0] == 'A' for h in hist):
                # additions only: no removal has left matcher flags behind, so the copy of an element that is merely
                # incomplete must show the same children, in both views, as its original (a copy that brings back a child
                # the original does not show is not faithful)
                e = build(T, hist).el
                c = call(copy.deepcopy, e)
                col.stats['incomplete_copies_judged'] += 1
                if c.ok:
                    ve = ([x.name for x in e.get_children(ordered=True)], sorted(x.name for x in e.get_children(ordered=False)))
                    vc = ([x.name for x in c.value.get_children(ordered=True)], sorted(x.name for x in c.value.get_children(ordered=False)))
                    if ve[0] != vc[0]:
                        col.add(T, 'copy-serialises-differently', [st.names(), opj(op), 'incomplete-original:ordered-children'], pre, op,
                                observed=[ve[0], vc[0]])
            return
        hist = list(pre.hist) + [op]
        key = [st.names(), opj(op)]

        def make():
            return build(T, hist).el

        def add(kind, k, **d):
            col.add(T, kind, k, pre, op, **d)
        col.stats['copies_judged'] += judge_copy(T, impl.REP[T], make, add, key)
    return f


structcheck.ORACLES['C14'] = oracle_C14
structcheck.FACTORIES['C14'] = oracle_C14


def work_attr(names):
    """attribute / value histories per class, both xsd_check values, plus one level of nesting"""
    vio = []
    n = 0
    for name in names:
        cls = impl.class_for(name)
        kind, t = R.element_type(name)
        val = impl.valid_value(cls)
        base = impl.req_attrs(cls, t) if kind == 'complex' else {}
        an, v1, v2 = attr_info_for(name)
        recipes = [('plain', [])]
        if an is not None:
            a_ = an.replace('-', '_')
            recipes += [('kw', [('kw', a_, v1)]), ('dot', [('dot', a_, v1)]), ('kw-overwrite', [('kw', a_, v1), ('dot', a_, v2)]),
                        ('kw-removed', [('kw', a_, v1), ('dot', a_, None)]), ('dot-removed', [('dot', a_, v1), ('dot', a_, None)]),
                        ('dot-dot', [('dot', a_, v1), ('dot', a_, v2)])]
        if kind == 'complex' and R.content_model(t) is not None:
            sig = explore.reduced_alphabet(t)[:2]

            def make_toggled():
                e = cls(val, xsd_check=True, **base)
                e.xsd_check = False
                for a in sig:
                    e.add_child(impl.child(a))
                e.xsd_check = True
                return e

            def addt(k, key, **d):
                vio.append({'scope': name, 'kind': k, 'key': key, **d})
            if call(make_toggled).ok:
                n += judge_copy(None, name, make_toggled, addt, [name, 'children-added-while-unchecked', True, False])
        for check in (True, False):
            for rname, steps in recipes:
                for nested in (False, True):
                    def make():
                        kw = dict(base)
                        for (how, a, v) in steps:
                            if how == 'kw':
                                kw[a] = v
                        e = cls(val, xsd_check=check, **kw)
                        for (how, a, v) in steps:
                            if how == 'dot':
                                setattr(e, a, v)
                        if nested:
                            w = impl.class_for('credit')(xsd_check=False)
                            w.add_child(e)
                            w.add_child(impl.child(name))
                            return w
                        return e
                    T = t if (kind == 'complex' and R.content_model(t) is not None and not nested) else None

                    def add(k, key, **d):
                        vio.append({'scope': name, 'kind': k, 'key': key, **d})
                    n += judge_copy(T, name if not nested else 'credit', make, add, [name, rname, check, nested])
    return vio, n


def run(tier):
    run_ = core.Run('C14', tier)
    r1 = explore.r1_prepare()
    guards = []
    specs = [explore.Spec(T, 'full', BFS_BUDGET[tier], 'C14') for T in impl.TYPES]
    # the types with repeated names, over their small mixed alphabet (additions, removals), one to two levels deeper: the
    # states in which the element's two views disagree on the pinned tree (note: tie, tie, grace; removal inside a
    # repeated group) are reached here, and a copy must still serialise exactly like its original there
    for T in impl.TYPES:
        da = explore.deep_alphabet(T)
        if da:
            sp = explore.Spec(T, 'deep', DEEP_BUDGET[tier], 'C14', sigma=da)
            specs.append(sp)
    res = explore.run_bfs(specs, structcheck.FACTORIES)
    tot = collections.Counter()
    ost = collections.Counter()
    per_type = {}
    for key in sorted(res):
        r = res[key]
        run_.add_violations(r['vio'])
        tot['states'] += r['states']
        tot['transitions'] += r['transitions']
        per_type.setdefault(r['T'], {})[r['profile']] = {'depth': r['depth'], 'states': r['states'], 'transitions': r['transitions']}
        for k, v in r['ostats'].items():
            ost[k] += v
    names = sorted(R.partwise_elements())
    nattr = 0
    for vio, n in core.pmap(work_attr, [names[i:i + 6] for i in range(0, len(names), 6)]):
        run_.add_violations(vio)
        nattr += n
    if ost.get('copies_judged', 0) == 0 or nattr == 0:
        guards.append('no copy judged')
    run_.assumptions += ['alphabet reduction R1; opaque children', 'one optional plain attribute per class carries the attribute histories']
    cov = {'states': tot['states'], 'transitions': tot['transitions'] + nattr,
           'traces_validated_against_impl': ost.get('copies_judged', 0) + nattr,
           'structural_copy_judgements': ost.get('copies_judged', 0), 'attribute_copy_judgements': nattr,
           'per_type': per_type,
           'samples': [{'type': 'pitch', 'history': [['A', 'step'], ['A', 'octave']], 'then': 'deepcopy, mutate copy'},
                       {'class': 'words', 'recipe': 'kw-removed', 'xsd_check': True, 'nested': False}],
           'exhaustive': True, 'r1_check': r1,
           'rule': 'every serialisable state of the full-operation BFS without failed calls (budget %d/type) x deepcopy x single mutations on either side; '
                   '7 attribute recipes x 2 check flags x nested/standalone per class' % BFS_BUDGET[tier]}
    return run_.finish(cov, guard_errors=guards)


def replay(rec):
    if 'trace' in rec:
        return structcheck.replay_struct(rec, 'C14')
    vio, n = work_attr([rec['scope']])
    hit = [v for v in vio if core.jkey(v['key']) == core.jkey(rec['key']) and v['kind'] == rec['kind']]
    return {'reproduced': bool(hit), 'observed': hit[:1]}
