"""C01 - serialised child structure is always schema-valid (see mc/structcheck.py, DESIGN 4 C01).

Part 1: structural exploration of every type (profiles full / adds / fwd / deep), oracle: every successful to_string emits
a word of the reference automaton.  Part 2 (nested documents): for every (parent type P, element-content child q):
a complete checked P holding a CHECKED q whose own children go through every history of depth <= 2 (thorough 3);
whenever P.to_string(intelligent_choice off/on) returns, the child sequence of P and of the nested q must both be
accepted by their automata (validity of a tree is the conjunction of per-node validity: the final check recurses)."""
import itertools
import collections
import xml.etree.ElementTree as ET

from mc import core, impl, explore, structcheck
from mc.impl import nfa, call
from mc.checks.C18 import word_with, pairs

PROFILES = [('full', 4000, 60000), ('adds', 3000, 40000), ('fwd', 20000, 200000), ('deep', 70000, 600000)]
NEST_DEPTH = {'quick': 2, 'thorough': 3}


def work_nested(arg):
    chunk, depth = arg
    vio = []
    oc = collections.Counter()
    for (P, q, tq) in chunk:
        w = word_with(P, q)
        if w is None:
            continue
        sig = explore.reduced_alphabet(tq)[:5]
        ops = [('A', a) for a in sig] + [('R', 0)]
        for k in range(0, depth + 1):
            for hist in itertools.product(ops, repeat=k):
                def build():
                    p = impl.fresh(P)
                    qst = None
                    for a in w:
                        if a == q and qst is None:
                            qst = impl.State(impl.child(q, 'checked'))
                            p.add_child(qst.el)
                        else:
                            p.add_child(impl.minimal(a))
                    for op in hist:
                        impl.apply(qst, op)
                    return p, qst
                b = call(build)
                if not b.ok:
                    oc['not_buildable'] += 1
                    continue
                for ic in (False, True):
                    p, qst = b.value if not ic else call(build).value
                    o = call(p.to_string, ic) if ic else call(p.to_string)
                    oc['nested_serialisations'] += 1
                    if not o.ok:
                        oc['refused'] += 1
                        continue
                    oc['returned'] += 1
                    try:
                        root = ET.fromstring(o.value)
                    except ET.ParseError:
                        vio.append({'scope': P, 'kind': 'invalid-child-sequence', 'key': [P, q, [list(x) for x in hist], ic, 'not-well-formed']})
                        continue
                    tags = [c.tag for c in root]
                    qs = [c for c in root if c.tag == q]
                    qtags = [c.tag for c in qs[0]] if qs else None
                    if not nfa(P).accepts(tags):
                        vio.append({'scope': P, 'kind': 'invalid-child-sequence', 'key': [P, q, [list(x) for x in hist], ic, 'parent', tags]})
                    elif qtags is None or not nfa(tq).accepts(qtags):
                        vio.append({'scope': P, 'kind': 'invalid-child-sequence', 'key': [P, q, [list(x) for x in hist], ic, 'nested', qtags]})
    return vio, dict(oc)


def run(tier):
    def extra(run_, tot, ostats, guards, samples):
        ps = pairs()
        for vio, oc in core.pmap(work_nested, [(ps[i:i + 4], NEST_DEPTH[tier]) for i in range(0, len(ps), 4)]):
            run_.add_violations(vio)
            for k, v in oc.items():
                ostats['nested:' + k] += v
        tot['transitions'] += ostats['nested:nested_serialisations']
        samples.append({'nested': ['measure', 'note', [['A', 'pitch'], ['R', 0]], 'intelligent_choice off/on']})
        if ostats['nested:returned'] == 0 or ostats['nested:refused'] == 0:
            guards.append('nested part degenerate')
    return structcheck.run_struct('C01', tier, 'C01', PROFILES, extra=extra,
                                  min_guard={'serialisation_ok': 'no successful serialisation at all',
                                             'serialisation_refused': 'no refused serialisation at all'})


def replay(rec):
    if 'trace' in rec:
        return structcheck.replay_struct(rec, 'C01')
    from mc.ref import xsd as R
    P, q = rec['key'][0], rec['key'][1]
    vio, oc = work_nested(([(P, q, R.element_type(q)[1])], 3))
    hit = [v for v in vio if core.jkey(v['key']) == core.jkey(rec['key'])]
    return {'reproduced': bool(hit), 'observed': hit[:1]}
