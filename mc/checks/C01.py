"""C01 - serialised child structure is always schema-valid (see mc/structcheck.py, DESIGN 4 C01).

Part 1: structural exploration of every type (profiles full / adds / fwd / deep), oracle: every successful to_string emits
a word of the reference automaton.  Part 2 (nested documents): for every (parent type P, element-content child q):
a complete checked P holding a CHECKED q whose own children go through every history of depth <= 2 (thorough 3);
whenever P.to_string(intelligent_choice off/on) returns, the child sequence of P and of the nested q must both be
accepted by their automata (validity of a tree is the conjunction of per-node validity: the final check recurses).
Part 3 (second opinion): every complete document of the model-driven enumeration used by C08 (minimal elements,
value shapes, attributes, content-model words with minimal children, for all classes) is validated by the JDK schema
validator; any content-model error (cvc-complex-type.2.4.*) at any depth is a violation."""
import itertools
import collections
import xml.etree.ElementTree as ET

from mc import core, impl, explore, structcheck
from mc.impl import nfa, call
from mc.checks.C18 import word_with, pairs

PROFILES = [('full', 4000, 60000), ('adds', 3000, 40000), ('fwd', 20000, 200000), ('deep', 70000, 600000), ('toggle', 1500, 1500)]
NEST_DEPTH = {'quick': 2, 'thorough': 3}


def work_nested(arg):
    chunk, depth = arg
    vio = []
    oc = collections.Counter()
    for (P, q, tq) in chunk:
        w = word_with(P, q)
        if w is None:
            continue
        sig = explore.reduced_alphabet(tq)[:5]
        ops = [('A', a) for a in sig] + [('R', 0)]
        for k in range(0, depth + 1):
            for hist in itertools.product(ops, repeat=k):
                def build():
                    p = impl.fresh(P)
                    qst = None
                    for a in w:
                        if a == q and qst is None:
                            qst = impl.State(impl.child(q, 'checked'))
                            p.add_child(qst.el)
                        else:
                            p.add_child(impl.minimal(a))
                    for op in hist:
                        impl.apply(qst, op)
                    return p, qst
                b = call(build)
                if not b.ok:
                    oc['not_buildable'] += 1
                    continue
                for ic in (False, True):
                    p, qst = b.value if not ic else call(build).value
                    o = call(p.to_string, ic) if ic else call(p.to_string)
                    oc['nested_serialisations'] += 1
                    if not o.ok:
                        oc['refused'] += 1
                        continue
                    oc['returned'] += 1
                    try:
                        root = ET.fromstring(o.value)
                    except ET.ParseError:
                        vio.append({'scope': P, 'kind': 'invalid-child-sequence', 'key': [P, q, [list(x) for x in hist], ic, 'not-well-formed']})
                        continue
                    tags = [c.tag for c in root]
                    qs = [c for c in root if c.tag == q]
                    qtags = [c.tag for c in qs[0]] if qs else None
                    if not nfa(P).accepts(tags):
                        vio.append({'scope': P, 'kind': 'invalid-child-sequence', 'key': [P, q, [list(x) for x in hist], ic, 'parent', tags]})
                    elif qtags is None or not nfa(tq).accepts(qtags):
                        vio.append({'scope': P, 'kind': 'invalid-child-sequence', 'key': [P, q, [list(x) for x in hist], ic, 'nested', qtags]})
        # serialise - mutate the nested child - serialise again (checked tree): after one successful serialisation of
        # P, every single removal inside a complete q; whenever P.to_string returns, both nodes must still be valid
        def build_complete():
            p = impl.fresh(P)
            qel = None
            for a in w:
                m = impl.minimal(a)
                if a == q and qel is None:
                    qel = m
                p.add_child(m)
            return p, qel
        b = call(build_complete)
        if b.ok and call(b.value[0].to_string).ok:
            nkids = len(b.value[1].get_children(ordered=False))
            for i in range(nkids):
                for ic in (False, True):
                    p, qel = call(build_complete).value
                    first = call(p.to_string)
                    r = call(qel.remove, qel.get_children(ordered=False)[i])
                    o = call(p.to_string, ic) if ic else call(p.to_string)
                    oc['nested_serialisations'] += 1
                    if not (first.ok and r.ok):
                        continue
                    if not o.ok:
                        oc['refused'] += 1
                        continue
                    oc['returned'] += 1
                    root = ET.fromstring(o.value)
                    qs = [c for c in root if c.tag == q]
                    qtags = [c.tag for c in qs[0]] if qs else None
                    if qtags is None or not nfa(tq).accepts(qtags) or not nfa(P).accepts([c.tag for c in root]):
                        vio.append({'scope': P, 'kind': 'invalid-child-sequence',
                                    'key': [P, q, 'serialise-remove-serialise', i, ic, qtags]})
    return vio, dict(oc)


def work_docs(arg):
    """complete documents: the minimal element and every content-model word (length <= 2, capped) with minimal children"""
    names, tier = arg
    from mc.ref import xsd as R
    out = []
    cap = 120 if tier == 'quick' else 1500
    for name in names:
        kind, t = R.element_type(name)
        cls = impl.class_for(name)
        builds = [('min', lambda: impl.minimal(name))]
        if kind == 'complex' and R.content_model(t) is not None:
            for w in [w for w in nfa(t).words(2 if tier == 'quick' else 3) if w][:cap]:
                def bw(w=w):
                    e = cls(impl.valid_value(cls), **impl.req_attrs(cls, t))
                    for a in w:
                        e.add_child(impl.minimal(a))
                    return e
                builds.append(('word:' + ','.join(w), bw))
        for rid, build in builds:
            o = call(build)
            if not o.ok:
                continue
            so = call(o.value.to_string)
            if so.ok:
                out.append((name, rid, so.value))
    return out


def run(tier):
    def extra(run_, tot, ostats, guards, samples):
        extra_nested(run_, tot, ostats, guards, samples)
        from mc import jdk
        from mc.ref import xsd as R
        names = sorted(n for n in R.partwise_elements() if len(R.partwise_elements()[n]) == 1)
        docs_ = []
        for part in core.pmap(work_docs, [(names[i:i + 6], tier) for i in range(0, len(names), 6)]):
            docs_ += part
        if jdk.available():
            res = jdk.validate([d[2] for d in docs_])
            for (name, rid, text), (ok, codes, msg) in zip(docs_, res):
                ostats['jdk:documents'] += 1
                cm = sorted({c for c in codes if c.startswith('cvc-complex-type.2.4')})
                if cm:
                    run_.violation(name, 'invalid-child-sequence', [name, rid, 'jdk', cm], observed=msg[:200], document=text[:400])
                elif ok:
                    ostats['jdk:valid'] += 1
            tot['transitions'] += len(docs_)
        else:
            guards.append('JDK validator not built (./check setup)')
        if ostats['jdk:valid'] < 500:
            guards.append('fewer than 500 documents confirmed valid by the JDK')

    def extra_nested(run_, tot, ostats, guards, samples):
        ps = pairs()
        for vio, oc in core.pmap(work_nested, [(ps[i:i + 4], NEST_DEPTH[tier]) for i in range(0, len(ps), 4)]):
            run_.add_violations(vio)
            for k, v in oc.items():
                ostats['nested:' + k] += v
        tot['transitions'] += ostats['nested:nested_serialisations']
        samples.append({'nested': ['measure', 'note', [['A', 'pitch'], ['R', 0]], 'intelligent_choice off/on']})
        if ostats['nested:returned'] == 0 or ostats['nested:refused'] == 0:
            guards.append('nested part degenerate')
    return structcheck.run_struct('C01', tier, 'C01', PROFILES, extra=extra,
                                  min_guard={'serialisation_ok': 'no successful serialisation at all',
                                             'serialisation_refused': 'no refused serialisation at all'})


def replay(rec):
    if 'trace' in rec:
        return structcheck.replay_struct(rec, 'C01')
    from mc.ref import xsd as R
    P, q = rec['key'][0], rec['key'][1]
    vio, oc = work_nested(([(P, q, R.element_type(q)[1])], 3))
    hit = [v for v in vio if core.jkey(v['key']) == core.jkey(rec['key'])]
    return {'reproduced': bool(hit), 'observed': hit[:1]}
