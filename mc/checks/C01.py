"""C01 - serialised child structure is always schema-valid (see mc/structcheck.py, DESIGN 4 C01)."""
from mc import structcheck

PROFILES = [('full', 4000, 60000), ('adds', 3000, 40000), ('fwd', 20000, 200000), ('deep', 70000, 600000)]


def run(tier):
    return structcheck.run_struct('C01', tier, 'C01', PROFILES,
                                  min_guard={'serialisation_ok': 'no successful serialisation at all',
                                             'serialisation_refused': 'no refused serialisation at all'})


def replay(rec):
    return structcheck.replay_struct(rec, 'C01')
