"""C05 - value validation matches the XSD simple types; emitted text is lexically valid.

Complete cross product: every simple type (145 MusicXML + the built-ins the library models) x a value alphabet
(all enumeration literals of all types, numeric boundary probes, strings enumerated from every pattern's syntax
tree incl. near-misses, whitespace variants, Python numbers incl. non-finite / huge / tiny floats and bools,
non-string objects) x entry points (the type class itself, an element host via constructor and via value_
assignment, an attribute host).  Oracle: the JDK schema validator on lexical.xsd.
 (->) accepted  =>  the text the library emits for the value (str(value), confirmed on to_string output) is valid;
 (<-) a whitespace-normalised member of the lexical space, offered as str (string types) / int / float (numeric
      types) / either (unions), is accepted;
 empty and element-only types reject non-empty text."""
import math
import collections
import xml.etree.ElementTree as ET
from xml.sax.saxutils import escape

from mc import core, impl, jdk
from mc.ref import xsd as R
from mc.ref import patterns
from mc.checks.C03 import st_class_name

BUILTINS = ['decimal', 'integer', 'nonNegativeInteger', 'positiveInteger', 'string', 'token', 'NMTOKEN', 'Name', 'NCName',
            'ID', 'IDREF', 'language', 'date', 'anyURI']
STRING_ROOTS = {'xs:string', 'xs:token', 'xs:NMTOKEN', 'xs:Name', 'xs:NCName', 'xs:ID', 'xs:IDREF', 'xs:language',
                'xs:date', 'xs:anyURI'}
INT_ROOTS = {'xs:integer', 'xs:nonNegativeInteger', 'xs:positiveInteger'}
PRESERVE = {'xs:string'}


def collapse(s):
    return ' '.join(s.replace('\t', ' ').replace('\n', ' ').replace('\r', ' ').split())


def all_types():
    """[(key, schema element name in lexical.xsd, library class name, root builtin or None for unions)]"""
    out = []
    for n in sorted(R.STYPES):
        out.append((n, 'st.' + n, st_class_name(n), R.st_root_builtin(n)))
    for b in BUILTINS:
        out.append(('xs:' + b, 'xs.' + b, st_class_name(b), 'xs:' + b))
    return out


def string_alphabet(tier):
    lits = sorted({v for n in R.STYPES for v in R.st_facets(n)['enum']})
    probes = ['0', '1', '-1', '1.5', '0.5', '100', '101', '127', '128', '129', '16', '17', '15', '16384', '16385', '-0.5',
              '1e-05', '1E5', 'NaN', 'INF', '-INF', '+1', '01', '1.', '.5', '', 'a', 'a b', '#000000', '2000-01-01',
              '2000-13-01', '2000-01-01Z', '2000-02-30', 'de', 'de-DE', 'x-klingon', 'toolonglanguagetag', 'P1', '1P', 'a:b',
              'true', '3+2', '12', '99', '0.0', '-100', '100.5', '360', '180', '-180', '181', '-181', '1024th', 'http://a b',
              '-0', '1e16', '10000000000000000', '0.00001', '1,2', '1, 2', '9', '10', '7', '8', '6', '3', '2', '-2', '-3', '4', '5']
    bounds = []
    for n in R.STYPES:
        f = R.st_facets(n)
        for k in ('min_in', 'max_in', 'min_ex', 'max_ex'):
            if f[k] is not None:
                b = float(f[k])
                for d in (-1, -0.5, 0, 0.5, 1):
                    x = b + d
                    bounds.append(str(int(x)) if x == int(x) else str(x))
    pos, neg = [], []
    pats = [R.st_facets(n)['pattern'] for n in R.STYPES if R.st_facets(n)['pattern']]
    pats += [r'\c+', r'\i\c*', r'[\i-[:]][\c-[:]]*'.replace('-[:]', ''),
             r'([a-zA-Z]{2}|[iI]-[a-zA-Z]+|[xX]-[a-zA-Z]{1,8})(-[a-zA-Z]{1,8})*']
    for p in pats:
        a, b = patterns.candidates(p)
        pos += a
        neg += b
    base = lits + probes + bounds + pos
    if tier == 'thorough':
        base += neg
    else:
        base += neg[::4]
    out = []
    seen = set()
    for s in base:
        if s not in seen:
            seen.add(s)
            out.append(s)
    # whitespace variants of a subset (every string in thorough)
    ws_src = out if tier == 'thorough' else (lits[::9] + probes[:20] + pos[::5])
    for s in list(ws_src):
        for v in (' ' + s, s + ' ', s.replace('-', '  ', 1) if '-' in s else s + '  x', '\t' + s, s + '\n',
                  s.replace(' ', '\xa0') if ' ' in s else '\xa0' + s, s.replace(' ', '\u2003') if ' ' in s else s + '\x0c'):
            if v not in seen:
                seen.add(v)
                out.append(v)
    return out


PY_VALUES = [2 ** 1024, -(2 ** 1024), 10 ** 400, 1.25e-05, 7.5e-06, 1.0, 2.0, 0, 1, -1, 2, 3, 16, 17, 100, 101, 127, 128, 129, 16384, 16385, 10 ** 16, 0.5, 1.5, -0.5, 3.0, 100.5, 1e16,
             1e-05, -0.0, float('nan'), float('inf'), float('-inf'), True, False, 180, -180, 181, -181, 360, 99, 2.5e-7]
PY_OBJECTS = [[], b'a', ('a',), {'a': 1}]


def pyrepr(v):
    return 'py:' + type(v).__name__ + ':' + repr(v)


def num_value(s):
    """Python number for a numeric lexical form (None if not numeric)"""
    t = s.strip()
    try:
        if t.lstrip('+-').isdigit():
            return int(t)
        f = float(t)
        if 'n' in t.lower() or 'e' in t.lower():
            return None
        return f
    except ValueError:
        return None


def offer_direct(cls, v):
    o = impl.call(lambda: cls(v))
    return o


def hosts_for():
    """type key -> {'element': element name or None, 'attr': (element name, attribute) or None}"""
    h = collections.defaultdict(dict)
    for n in sorted(R.partwise_elements()):
        if len(R.partwise_elements()[n]) != 1:
            continue
        kind, t = R.element_type(n)
        if kind == 'simple':
            h[t].setdefault('element', n)
        else:
            sc = R.simple_content_base(t)
            if sc:
                h[sc].setdefault('element', n)
            for (an, at, req) in R.ctype_attrs(t):
                if ':' in an or an == 'name' or not at:
                    continue
                h[at].setdefault('attr', (n, an))
    return h


def work(arg):
    """one simple type: all offers through all entry points; returns records needing a JDK verdict"""
    (key, xname, cname, root), strs, tier = arg
    import musicxml.xsd.xsdsimpletype as ST
    cls = getattr(ST, cname, None)
    if cls is None:
        return key, None, [], {}
    hosts = hosts_for().get(key, {})
    accepted = []   # (entry, offered repr, emitted text)
    refused_str = set()
    accepted_any = set()  # lexical strings s for which some offer form was accepted
    oc = collections.Counter()
    is_union = root is None
    offers = [('str', s, s) for s in strs]
    for s in strs:
        x = num_value(s)
        if x is not None:
            offers.append(('num', s, x))
    for v in PY_VALUES:
        offers.append(('py', None, v))
    for v in PY_OBJECTS:
        offers.append(('obj', None, v))
    internal = []
    for form, s, v in offers:
        o = offer_direct(cls, v)
        oc['offers'] += 1
        if o.ok:
            oc['accepted_by_class'] += 1
            if s is not None:
                accepted_any.add(s)
        elif o.exc not in ('TypeError', 'ValueError'):
            internal.append(('class', pyrepr(v), o.exc))
    # hosts: element constructor, value_ assignment, attribute keyword - same offers (quick: strings only)
    ecls = impl.class_for(hosts['element']) if hosts.get('element') else None
    if ecls is not None:
        kind, t = R.element_type(hosts['element'])
        base = impl.req_attrs(ecls, t) if kind == 'complex' else {}
        try:
            good = impl.valid_value(ecls)
        except RuntimeError:
            good = None
        for form, s, v in offers:
            for entry in ('ctor', 'assign'):
                if entry == 'ctor':
                    o = impl.call(lambda: ecls(v, xsd_check=False, **base))
                else:
                    if good is None:
                        continue

                    def f():
                        e = ecls(good, xsd_check=False, **base)
                        e.value_ = v
                        return e
                    o = impl.call(f)
                oc['offers'] += 1
                if o.ok:
                    so = impl.call(o.value.to_string)
                    if so.ok:
                        try:
                            em = ET.fromstring(so.value).text or ''
                        except ET.ParseError:
                            em = '<not well-formed>'
                        accepted.append(('element:%s:%s' % (hosts['element'], entry), pyrepr(v), em))
                        if s is not None:
                            accepted_any.add(s)
                elif o.exc not in ('TypeError', 'ValueError'):
                    internal.append(('element:' + entry, pyrepr(v), o.exc))
    if hosts.get('attr'):
        en, an = hosts['attr']
        acls = impl.class_for(en)
        kind, t = R.element_type(en)
        base = dict(impl.req_attrs(acls, t))
        try:
            good = impl.valid_value(acls)
        except RuntimeError:
            good = None
        if good is not None:
            for form, s, v in offers:
                kw = dict(base)
                kw[an.replace('-', '_')] = v
                o = impl.call(lambda: acls(good, xsd_check=False, **kw))
                oc['offers'] += 1
                if o.ok:
                    so = impl.call(o.value.to_string)
                    if so.ok:
                        try:
                            em = ET.fromstring(so.value).attrib.get(an)
                        except ET.ParseError:
                            em = None
                        if em is not None:
                            accepted.append(('attribute:%s@%s' % (en, an), pyrepr(v), em))
                            if s is not None:
                                accepted_any.add(s)
    return key, xname, accepted, {'accepted_any': sorted(accepted_any), 'internal': internal, 'oc': dict(oc),
                                  'root': root, 'union': is_union}


def run(tier):
    run_ = core.Run('C05', tier)
    guards = []
    if not jdk.available():
        raise core.InternalError('JDK validator not built (./check setup)')
    strs = string_alphabet(tier)
    types = all_types()
    res = core.pmap(work, [(t, strs, tier) for t in types])
    # one JDK batch: validity of every alphabet string and of every emitted text, for every type
    docs = []
    index = {}
    emitted = collections.defaultdict(set)
    for key, xname, accepted, info in res:
        if xname is None:
            continue
        for (_, _, em) in accepted:
            emitted[key].add(em)
    for (key, xname, cname, root) in types:
        for s in list(strs) + sorted(emitted.get(key, ())):
            if (key, s) not in index:
                index[(key, s)] = len(docs)
                docs.append('<%s>%s</%s>' % (xname, escape(s).replace('\t', '&#9;'), xname))
    verdicts = jdk.validate(docs, 'lexical.xsd')
    valid = {k: verdicts[i][0] for k, i in index.items()}
    oc = collections.Counter()
    nacc = 0
    for key, xname, accepted, info in res:
        if xname is None:
            run_.violation(key, 'member-refused', [key, 'class-missing'])
            continue
        for k, v in info['oc'].items():
            oc[k] += v
        for (entry, offered, em) in accepted:
            nacc += 1
            if not valid[(key, em)]:
                run_.violation(key, 'accepted-but-emits-invalid', [key, offered, entry.split(':')[0]], emitted=em, entry=entry)
        acc = set(info['accepted_any'])
        root = info['root']
        ws_preserve = root in PRESERVE
        for s in strs:
            if not valid[(key, s)]:
                continue
            if not ws_preserve and collapse(s) != s:
                continue   # not offered in its whitespace-normalised form
            oc['members'] += 1
            if s not in acc:
                run_.violation(key, 'member-refused', [key, s], note='valid and normalised, refused as str and as number')
        for (entry, offered, exc) in info['internal']:
            oc['non_value_errors'] += 1
    # types without character content
    n_empty = 0
    for n in sorted(R.partwise_elements()):
        if len(R.partwise_elements()[n]) != 1:
            continue
        kind, t = R.element_type(n)
        if kind == 'complex' and R.simple_content_base(t) is None:
            cls = impl.class_for(n)
            n_empty += 1
            o = impl.call(lambda: cls('a', xsd_check=False))
            if o.ok:
                run_.violation(n, 'text-on-empty-type', [n, 'a', 'ctor'])

            def f():
                e = cls(xsd_check=False)
                e.value_ = 'a'
                return e
            o = impl.call(f)
            if o.ok:
                run_.violation(n, 'text-on-empty-type', [n, 'a', 'assign'])
    if nacc == 0 or oc['members'] == 0:
        guards.append('nothing accepted / no members')
    run_.assumptions += ['value alphabet V (%d strings, %d Python numbers, %d objects); nothing is claimed outside V' %
                         (len(strs), len(PY_VALUES), len(PY_OBJECTS)),
                         'JDK javax.xml.validation is the lexical oracle (derived lexical.xsd)']
    cov = {'states': len(types), 'transitions': oc['offers'], 'traces_validated_against_impl': oc['offers'],
           'simple_types': len(types), 'strings': len(strs), 'offers': oc['offers'], 'accepted': nacc,
           'jdk_verdicts': len(docs), 'members_judged': oc['members'], 'element_only_classes': n_empty,
           'non_value_exceptions_seen': oc['non_value_errors'],
           'samples': [{'type': 'tenths', 'value': '1e-05', 'entry': 'class'}, {'type': 'color', 'value': '#00000G'}],
           'exhaustive': True,
           'rule': 'complete product simple types x value alphabet x entry points; every verdict from the JDK validator'}
    return run_.finish(cov, guard_errors=guards)


def replay(rec):
    return {'reproduced': None, 'note': 're-run ./check C05 quick (JDK batch); key = [type, value, entry]'}
