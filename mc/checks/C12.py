"""C12 - where the schema fixes the order, insertion order does not matter.

(a) every multiset of children (size <= n_T) with exactly one schema-valid arrangement, in ALL its distinct
    permutations: each accepted, serialised in that arrangement, same-named children in insertion order;
(b) on the additions-only exploration: a rejected add_child(a) is justified only if the children held plus `a`
    cannot be completed to any valid sequence (exhaustive completion search on the reference automaton)."""
import itertools
import collections

from mc import core, impl, explore, structcheck
from mc.impl import nfa, build, serialise, child_tags

PERM_BUDGET = {'quick': 2500, 'thorough': 40000}
BFS_BUDGET = {'quick': 3000, 'thorough': 40000}
CHUNK = 120


def distinct_perms(ms):
    return sorted(set(itertools.permutations(ms)))


def plan(arg):
    T, tier = arg
    A = nfa(T)
    sigma = explore.reduced_alphabet(T)
    items = []
    n_done = 0
    total = 0
    for n in range(1, 7):
        level = []
        for ms in itertools.combinations_with_replacement(sigma, n):
            arr = A.arrangements(ms, limit=2)
            if len(arr) != 1:
                continue
            for p in distinct_perms(ms):
                level.append((p, arr[0]))
        if n > 1 and total + len(level) > PERM_BUDGET[tier]:
            break
        items += level
        total += len(level)
        n_done = n
    return T, n_done, items


def judge(T, perm, arrangement):
    st = build(T, [('A', a) for a in perm])
    for i, o in enumerate(st.outcomes):
        if not o.ok:
            return ('unique-arrangement-refused', list(perm[:i + 1]), {'observed': o.as_json()})
    s = serialise(st.el)
    if s[0] != 'ok':
        if s[3]:
            tags = [c.name for c in st.el.get_children(ordered=True)]
        else:
            return ('unique-arrangement-refused', list(perm) + ['<to_string>'], {'observed': list(s[:3])})
    else:
        tags = child_tags(s[1])
    if tuple(tags) != tuple(arrangement):
        return ('unique-arrangement-misordered', list(perm), {'observed': tags, 'expected': list(arrangement)})
    # same-named children in insertion order
    kids = st.el.get_children(ordered=True)
    byname = collections.defaultdict(list)
    for k in kids:
        byname[k.name].append(k)
    for name, objs in byname.items():
        made = [m for m in st.made if m is not None and m.name == name]
        if [id(x) for x in objs] != [id(x) for x in made]:
            return ('unique-arrangement-misordered', list(perm) + ['<same-name-order>'], {'observed': name})
    return None


def work(arg):
    T, items = arg
    vio = []
    oc = collections.Counter()
    for perm, arr in items:
        r = judge(T, perm, arr)
        oc[r[0] if r else 'ok'] += 1
        if r:
            vio.append({'scope': T, 'kind': r[0], 'key': r[1], 'trace': [['A', a] for a in perm], **r[2]})
    return vio, dict(oc)


def run(tier):
    run_ = core.Run('C12', tier)
    r1 = explore.r1_prepare()
    guards = []
    # (a)
    plans = core.pmap(plan, [(T, tier) for T in impl.TYPES])
    tasks = []
    per_type = {}
    nperm = 0
    for T, n, items in plans:
        per_type[T] = {'multiset_size': n, 'permutations': len(items)}
        nperm += len(items)
        for i in range(0, len(items), CHUNK):
            tasks.append((T, items[i:i + CHUNK]))
    oc = collections.Counter()
    for vio, o in core.pmap(work, tasks):
        run_.add_violations(vio)
        for k, v in o.items():
            oc[k] += v
    # (b)
    from mc import obscheck  # noqa: F401
    specs = [explore.Spec(T, 'adds', BFS_BUDGET[tier], 'C12b') for T in impl.TYPES]
    res = explore.run_bfs(specs, structcheck.FACTORIES)
    tot = collections.Counter()
    ost = collections.Counter()
    for key in sorted(res):
        r = res[key]
        run_.add_violations(r['vio'])
        tot['states'] += r['states']
        tot['transitions'] += r['transitions']
        per_type[r['T']]['bfs_depth'] = r['depth']
        per_type[r['T']]['bfs_transitions'] = r['transitions']
        for k, v in r['ostats'].items():
            ost[k] += v
    if oc.get('ok', 0) == 0:
        guards.append('no permutation accepted')
    if ost.get('rejected_additions', 0) == 0 or ost.get('rejections_justified', 0) == 0:
        guards.append('no (justified) rejection met in part (b)')
    run_.assumptions += ['alphabet reduction R1', 'opaque children',
                         'completion search is exhaustive over (NFA state set x remaining multiset) of the reference automaton']
    cov = {'states': tot['states'], 'transitions': tot['transitions'] + nperm,
           'traces_validated_against_impl': nperm + tot['transitions'],
           'permutations_replayed': nperm, 'permutation_outcomes': dict(oc), 'bfs_counters': dict(ost),
           'samples': [{'type': T, 'permutation': list(items[-1][0]), 'arrangement': list(items[-1][1])}
                       for T, n, items in plans[:4] if items],
           'exhaustive': True, 'r1_check': r1, 'per_type': per_type,
           'rule': '(a) all multisets up to per-type size with a unique arrangement x all distinct permutations '
                   '(budget %d per type); (b) additions-only BFS, budget %d transitions per type' %
                   (PERM_BUDGET[tier], BFS_BUDGET[tier])}
    return run_.finish(cov, guard_errors=guards)


def replay(rec):
    T = rec['scope']
    if rec['kind'] == 'compatible-child-rejected':
        return structcheck.replay_struct(rec, 'C12b')
    perm = tuple(op[1] for op in rec['trace'])
    arr = nfa(T).arrangements(perm, limit=2)
    r = judge(T, perm, arr[0]) if len(arr) == 1 else None
    return {'reproduced': r is not None and r[0] == rec['kind'], 'observed': r, 'arrangements': arr}
