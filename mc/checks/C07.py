"""C07 - add_child never accepts a child that makes the element impossible to complete."""
from mc import structcheck

PROFILES = [('addrem', 4000, 60000), ('adds', 3000, 40000), ('fwd', 20000, 200000), ('xaddrem', 0, 40000), ('xaddrem@fwd', 0, 150000)]


def run(tier):
    return structcheck.run_struct('C07', tier, 'C07', PROFILES,
                                  min_guard={'successful_additions_judged': 'no successful addition judged'})


def replay(rec):
    return structcheck.replay_struct(rec, 'C07')
