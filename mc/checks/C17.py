"""C17 - write() is all-or-nothing and file I/O does not depend on the process locale.

Fault enumeration on a complete score: for every node x every way it can fail its final check (a required child
removed, a required attribute removed) and, independently, an exception injected at the k-th call of
_final_checks / _create_et_xml_element / ElementTree.tostring for EVERY k of a clean run (wrapped from outside), x
every prior state of the destination {absent, empty, previous content}: after the raising write() the destination
bytes are unchanged.  On success the file is the XML declaration followed by exactly to_string(), in UTF-8.
Configurations: import + build + write + parse of a document with non-ASCII text in a subprocess under each
default text encoding (UTF-8; the real C/POSIX locale = ASCII; Latin-1 and cp1252 emulated by wrapping open());
all must give byte-identical files and identical re-serialisations."""
import os
import sys
import json
import hashlib
import subprocess
import collections
import xml.etree.ElementTree as ET

from mc import core, impl, docs
from mc.impl import call
from mc.ref import xsd as R

PREVIOUS = 'PREVIOUS CONTENT é♭\n'.encode('utf-8')
DECL = '<?xml version="1.0" encoding="UTF-8" standalone="no"?>\n'


def build_score(measures=1, notes=1):
    import musicxml.xmlelement.xmlelement as X
    s = X.XMLScorePartwise(version='4.0')
    w = s.add_child(X.XMLWork())
    w.add_child(X.XMLWorkTitle('Bärenreiter ♭ \U0001d11e'))
    pl = s.add_child(X.XMLPartList())
    sp = pl.add_child(X.XMLScorePart(id='P1'))
    sp.add_child(X.XMLPartName('Flöte'))
    p = s.add_child(X.XMLPart(id='P1'))
    for m in range(measures):
        me = p.add_child(X.XMLMeasure(number=str(m + 1)))
        for n in range(notes):
            no = me.add_child(X.XMLNote())
            pi = no.add_child(X.XMLPitch())
            pi.add_child(X.XMLStep('C'))
            pi.add_child(X.XMLOctave(4))
            no.add_child(X.XMLDuration(1))
    return s


def nodes(el, path=()):
    yield path, el
    for i, c in enumerate(el.get_children(ordered=False)):
        yield from nodes(c, path + (i,))


def at(el, path):
    for i in path:
        el = el.get_children(ordered=False)[i]
    return el


def faults(size):
    """list of (fault id, function(score) applying it)"""
    s = build_score(*size)
    out = []
    for path, el in nodes(s):
        tname = None
        for n, ts in R.partwise_elements().items():
            if n == el.name and len(ts) == 1:
                tname = R.element_type(n)
        if tname and tname[0] == 'complex':
            for (an, at_, req) in R.ctype_attrs(tname[1]):
                if req and an in el.attributes:
                    out.append(('attr:%s@%s' % ('/'.join(map(str, path)) or 'root', an),
                                lambda sc, path=path, an=an: setattr(at(sc, path), an.replace('-', '_'), None)))
        kids = el.get_children(ordered=False)
        for i, c in enumerate(kids):
            out.append(('child:%s-%s' % ('/'.join(map(str, path)) or 'root', c.name),
                        lambda sc, path=path, i=i: at(sc, path).remove(at(sc, path).get_children(ordered=False)[i])))
    return out


def dest_states(rd, tag):
    for st in ('absent', 'empty', 'previous'):
        path = os.path.join(rd, 'c17_%s_%d.xml' % (tag, os.getpid()))
        if os.path.exists(path):
            os.unlink(path)
        if st == 'empty':
            open(path, 'wb').close()
        elif st == 'previous':
            with open(path, 'wb') as fh:
                fh.write(PREVIOUS)
        yield st, path


def read_state(path):
    return open(path, 'rb').read() if os.path.exists(path) else None


def run(tier):
    run_ = core.Run('C17', tier)
    guards = []
    rd = docs.run_dir()
    import musicxml.xmlelement.xmlelement as X
    oc = collections.Counter()
    sizes = [(1, 1)] if tier == 'quick' else [(1, 1), (3, 4)]
    for size in sizes:
        # success path
        s = build_score(*size)
        for st, path in dest_states(rd, 'ok'):
            before = read_state(path)
            o = call(s.write, path)
            oc['writes'] += 1
            want = (DECL + s.to_string()).encode('utf-8')
            if not o.ok:
                run_.violation('write', 'file-not-declaration-plus-text', ['clean-score', st, 'raises'], observed=o.as_json())
            elif read_state(path) != want:
                run_.violation('write', 'file-not-declaration-plus-text', ['clean-score', st], observed=(read_state(path) or b'')[:200])
            else:
                oc['successful_writes_checked'] += 1
        # semantic faults: each node failing its own check
        for fid, apply_fault in faults(size):
            for st, path in dest_states(rd, 'f'):
                sc = build_score(*size)
                fo = call(apply_fault, sc)
                if not fo.ok:
                    oc['fault_not_applicable'] += 1
                    continue
                before = read_state(path)
                o = call(sc.write, path)
                oc['writes'] += 1
                if o.ok:
                    oc['fault_did_not_fail_write'] += 1   # e.g. an optional child: nothing to judge
                    continue
                oc['raising_writes'] += 1
                if read_state(path) != before:
                    run_.violation('write', 'destination-changed-on-failure', [list(size), fid, st],
                                   observed=[o.exc, (read_state(path) or b'')[:80]])
        # injected faults at every k-th call of the functions write() passes through
        targets = [(X.XMLElement, '_final_checks'), (X.XMLElement, '_create_et_xml_element'), (ET, 'tostring')]
        for owner, fname in targets:
            orig = getattr(owner, fname)
            counter = {'n': 0, 'fail_at': None}

            def wrapper(*a, __orig=orig, **kw):
                counter['n'] += 1
                if counter['fail_at'] is not None and counter['n'] == counter['fail_at']:
                    raise OSError('injected fault')
                return __orig(*a, **kw)
            setattr(owner, fname, wrapper)
            try:
                counter['n'] = 0
                sc = build_score(*size)
                path0 = os.path.join(rd, 'c17_count.xml')
                sc.write(path0)
                total = counter['n']
                for k in range(1, total + 1):
                    for st, path in dest_states(rd, 'i'):
                        sc = build_score(*size)
                        counter['n'] = 0
                        counter['fail_at'] = k
                        before = read_state(path)
                        o = call(sc.write, path)
                        counter['fail_at'] = None
                        oc['writes'] += 1
                        oc['injected'] += 1
                        if o.ok:
                            oc['injection_not_reached'] += 1
                            continue
                        oc['raising_writes'] += 1
                        if read_state(path) != before:
                            run_.violation('write', 'destination-changed-on-failure', [list(size), 'inject:%s#%d' % (fname, k), st],
                                           observed=[o.exc, (read_state(path) or b'')[:80]])
            finally:
                setattr(owner, fname, orig)
    # configurations
    script = os.path.join(core.VERIF, 'mc', 'c17_child.py')
    results = {}
    for enc in ('utf-8', 'c-locale', 'latin-1', 'cp1252'):
        env = dict(os.environ)
        env['C17_OUT'] = os.path.join(rd, 'c17_enc_%s.xml' % enc)
        env['C17_EMULATE'] = '' if enc in ('utf-8', 'c-locale') else enc
        args = [sys.executable, '-W', 'ignore']
        if enc == 'c-locale':
            env['LC_ALL'] = 'C'
            env['LANG'] = 'C'
            env['PYTHONCOERCECLOCALE'] = '0'
            env.pop('PYTHONUTF8', None)
            env.pop('PYTHONIOENCODING', None)      # stdout / stderr are ASCII too, as in a real C-locale process
            args += ['-X', 'utf8=0']
        env['C17_RESULT'] = os.path.join(rd, 'c17_result_%s.json' % enc)
        p = subprocess.run(args + [script], env=env, capture_output=True, timeout=300)
        oc['configurations'] += 1
        try:
            results[enc] = json.loads(open(env['C17_RESULT'], 'rb').read().decode('utf-8'))
            # what the library itself wrote to stdout / stderr while importing, writing and parsing (nothing, normally)
            results[enc]['stdout_bytes'] = len(p.stdout)
            results[enc]['stderr_bytes'] = len(p.stderr)
        except Exception:
            results[enc] = {'error': (p.stderr or p.stdout)[-300:].decode('utf-8', 'replace')}
    ref = results.get('utf-8')
    if not ref or 'error' in ref:
        raise core.InternalError('UTF-8 reference configuration failed: %r' % ref)
    strip = lambda d: {k: v for k, v in d.items() if not k.startswith('_')}
    if results.get('c-locale', {}).get('_preferred', '').upper() not in ('ANSI_X3.4-1968', 'ASCII', 'US-ASCII'):
        guards.append('the C-locale child did not run with an ASCII default encoding: %r' % results.get('c-locale'))
    for enc, r in results.items():
        if strip(r) != strip(ref):
            run_.violation('locale', 'encoding-dependent', [enc], observed=r, expected=ref)
    if oc['raising_writes'] < 20 or oc['successful_writes_checked'] < 3:
        guards.append('too few writes judged')
    cov = {'evaluations': oc['writes'], 'distinct_nontrivial': oc['raising_writes'],
           'rule': 'every node x (required attribute removed | child removed) and every k-th call of _final_checks / '
                   '_create_et_xml_element / ET.tostring raising, x destination absent/empty/previous; non-trivial = write raised',
           'samples': [{'fault': 'child:root-part-list', 'destination': 'previous'}, {'fault': 'inject:_final_checks#3', 'destination': 'absent'},
                       {'configuration': 'c-locale'}],
           'states': oc['writes'], 'transitions': oc['writes'], 'traces_validated_against_impl': oc['writes'],
           'counters': dict(oc), 'configuration_results': results, 'exhaustive': True}
    run_.assumptions += ['Latin-1 / cp1252 defaults are emulated by wrapping open() in the child process (only C and C.UTF-8 '
                         'locales exist in the image); the ASCII case uses the real C locale']
    return run_.finish(cov, level='fault_enumeration', guard_errors=guards)


def replay(rec):
    return {'reproduced': None, 'note': 're-run ./check C17 quick; key = [score size, fault id, destination state]'}
