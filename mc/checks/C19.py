"""C19 - misuse is reported with the documented exception types, silently otherwise (monitor)."""
from mc import structcheck

PROFILES = [('misuse', 5000, 60000), ('adds', 3000, 40000)]


def run(tier):
    return structcheck.run_struct('C19', tier, 'C19', PROFILES, min_guard={'calls': 'no call monitored'})


def replay(rec):
    return structcheck.replay_struct(rec, 'C19')
