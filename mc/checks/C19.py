"""C19 - misuse is reported with the documented exception types, silently otherwise (monitor).

Part 1: the misuse exploration (structural operations incl. out-of-alphabet arguments, both intelligent_choice values):
every exception class / raising site, captured stdout / stderr / warnings, per-call alarm.
Part 2: values: every simple type x (numeric probes incl. ints beyond float range, non-finite floats, bools, non-string
objects, a string sample) through the type class, an element host (constructor, value_ assignment) and an attribute
host: anything but TypeError / ValueError escaping is an internal error."""
from mc import core, structcheck

PROFILES = [('misuse', 5000, 60000), ('adds', 3000, 40000)]
STRINGS = ['', ' ', 'a', '0', '1', '-1', '1.5', 'yes', 'NaN', '1e400', '\x00', 'a' * 5000]


def run(tier):
    def extra(run_, tot, ostats, guards, samples):
        from mc.checks import C05
        res = core.pmap(C05.work, [(t, STRINGS, tier) for t in C05.all_types()])
        for key, xname, accepted, info in res:
            if xname is None:
                continue
            ostats['value_offers'] += info['oc'].get('offers', 0)
            for (entry, offered, exc) in info['internal']:
                run_.violation(key, 'internal-error:%s@value-offer' % exc, [key, offered[:60], entry])
        tot['transitions'] += ostats['value_offers']
        samples.append({'simple type': 'tenths', 'offered': 'py:int:2**1024', 'entry': 'class'})
        if ostats['value_offers'] == 0:
            guards.append('no value offered')
    return structcheck.run_struct('C19', tier, 'C19', PROFILES, extra=extra, min_guard={'calls': 'no call monitored'})


def replay(rec):
    if 'trace' in rec:
        return structcheck.replay_struct(rec, 'C19')
    return {'reproduced': None, 'note': 'value offer: key = [simple type, offered value, entry point]; re-run ./check C19 quick'}
