"""C09 - any schema-valid MusicXML file is read without loss; nothing is silently dropped.

Documents are generated from the pinned schema by the reference grammar as RAW XML TEXT, independently of the
library: per element declaration the minimal document, every content-model word up to length 2 (thorough 3, capped)
with reference-minimal children, every declared attribute (prefixed ones included: xml:lang, xml:space, xlink:*)
alone and all together, numeric spellings (4, 4.0, +4, 04, ' 4 '), pretty-printed variants, non-ASCII text; plus
pinned real-world exports.  Every document is first confirmed valid by the JDK validator (invalid ones are dropped
and counted).  Valid input => parse_musicxml succeeds and re-serialises to the same typed infoset.
No-silent-loss half: every base document x mutation operators (unknown attribute, unknown child, text in
element-only content, tail text, duplicated last child, swapped children, invalid value, foreign attribute):
the parser raises, or every element, attribute and non-whitespace text of the input occurs in the output."""
import os
import copy
import zlib
import collections
import xml.etree.ElementTree as ET
from xml.sax.saxutils import escape, quoteattr

from mc import core, impl, docs, jdk
from mc.ref import xsd as R
from mc.ref import values as V

WORD_LEN = {'quick': 2, 'thorough': 3}
WORD_CAP = {'quick': 60, 'thorough': 1500}
XLINK_DECL = ' xmlns:xlink="http://www.w3.org/1999/xlink"'


def attrs_text(T, chosen):
    ns = XLINK_DECL if any(a.startswith('xlink:') for a, _ in chosen) else ''
    return ns + ''.join(' %s=%s' % (a, quoteattr(v)) for a, v in chosen)


def documents(name, tier):
    """yield (doc id, xml text) for one element declaration"""
    kind, t = R.element_type(name)
    yield 'min', V.min_xml(name)
    if kind == 'simple' or R.simple_content_base(t):
        tt = docs.text_type(name)
        roots = docs.type_roots(tt)
        req = V.attr_xml(t) if kind == 'complex' else ''
        sv = V.sample_value(tt)
        if roots & docs.NUMERIC_ROOTS:
            big = ['9007199254740993'] if not (roots & {'xs:decimal'}) else ['1234567.125']
            for sp in [sv, sv + '.0' if '.' not in sv else sv, '+' + sv if not sv.startswith(('-', '+')) else sv, '0' + sv, ' ' + sv + ' '] + big:
                yield 'num:' + sp, '<%s%s>%s</%s>' % (name, req, sp, name)
        else:
            f = R.st_facets(tt) if tt in R.STYPES else None
            vals = (f['enum'] if f and f['enum'] else [sv])
            for v in vals:
                yield 'text:' + v, '<%s%s>%s</%s>' % (name, req, escape(v), name)
            if roots <= {'xs:string'} and not (f and f['enum']):
                for v in ('é♭ ü', 'a b', 'a  b', ' a'):
                    yield 'text:' + v, '<%s%s>%s</%s>' % (name, req, escape(v), name)
    if kind == 'complex':
        reqd = [(an, V.sample_value(at)) for (an, at, rq) in R.ctype_attrs(t) if rq]
        inner = V.min_xml(name)
        body = inner[inner.index('>') + 1:] if not inner.endswith('/>') else None

        def with_attrs(chosen):
            a = attrs_text(t, chosen)
            return ('<%s%s/>' % (name, a)) if body is None else ('<%s%s>%s' % (name, a, body))
        allc = list(reqd)
        for (an, at, rq) in R.ctype_attrs(t):
            if rq:
                continue
            v = V.sample_value(at)
            yield 'attr:' + an, with_attrs(reqd + [(an, v)])
            allc.append((an, v))
            if docs.type_roots(at) and docs.type_roots(at) <= {'xs:string', 'xs:token'} and not (
                    at in R.STYPES and (R.st_facets(at)['enum'] or R.st_facets(at)['pattern'] or R.st_facets(at)['min_len'])):
                yield 'attrempty:' + an, with_attrs(reqd + [(an, '')])
            if docs.type_roots(at) & docs.NUMERIC_ROOTS and not (docs.type_roots(at) - docs.NUMERIC_ROOTS):
                yield 'attrnum:' + an, with_attrs(reqd + [(an, v + '.0' if '.' not in v and docs.type_roots(at) & {'xs:decimal'} else '0' + v)])
        if len(allc) > len(reqd) + 1:
            yield 'attrs:all', with_attrs(allc)
        if R.content_model(t) is not None:
            n = 0
            for w in V.nfa(t).words(WORD_LEN[tier]):
                if not w:
                    continue
                n += 1
                if n > WORD_CAP[tier]:
                    break
                yield 'word:' + ','.join(w), V.xml_for_word(name, w)
            # the long documents: transition cover and pumped cycles of the content-model DFA (the C02 families) - where
            # repeated groups (part-group brackets, midi pairs, chords) get long enough to be re-ordered
            from mc.checks import C02
            fam = C02.word_families(t, tier)[0]
            seen = set()
            for w, f in fam.items():
                if f in ('tcover', 'pump', '2switch') and WORD_LEN[tier] < len(w) <= 9 and w not in seen:
                    seen.add(w)
                    yield 'word:' + ','.join(w), V.xml_for_word(name, w)


def pretty(text):
    e = ET.fromstring(text)
    ET.indent(e, space='    ')
    return ET.tostring(e, encoding='unicode')


MUTATIONS = ['unknown-attribute', 'unknown-child', 'text-in-element-only', 'tail-text', 'duplicate-last-child',
             'swap-children', 'invalid-value', 'foreign-attribute', 'fractional-number', 'fractional-attribute']


def mutate(text, op):
    e = ET.fromstring(text)
    if op == 'unknown-attribute':
        e.set('bogus-attribute', 'x')
    elif op == 'unknown-child':
        e.append(ET.Element('bogus-element'))
    elif op == 'text-in-element-only':
        if not len(e):
            return None
        e.text = 'stray text'
    elif op == 'tail-text':
        if not len(e):
            return None
        e[-1].tail = 'stray tail'
    elif op == 'duplicate-last-child':
        if not len(e):
            return None
        e.append(copy.deepcopy(e[-1]))
    elif op == 'swap-children':
        if len(e) < 2 or e[0].tag == e[-1].tag:
            return None
        a, b = e[0], e[-1]
        kids = list(e)
        kids[0], kids[-1] = b, a
        for k in list(e):
            e.remove(k)
        for k in kids:
            e.append(k)
    elif op == 'invalid-value':
        if len(e) or not (e.text or '').strip():
            return None
        e.text = 'no-such-value-xyz 1'
    elif op == 'fractional-number':
        if len(e) or not (e.text or '').strip():
            return None
        e.text = '2.5'
    elif op == 'fractional-attribute':
        if not e.attrib:
            return None
        k = sorted(e.attrib)[0]
        e.set(k, '4.75')
    elif op == 'foreign-attribute':
        if 'slash-type' in e.attrib:
            return None
        e.set('slash-type', 'quarter')
    return ET.tostring(e, encoding='unicode')


def gen(names_tier):
    names, tier = names_tier
    out = []
    for name in names:
        n = 0
        for did, text in documents(name, tier):
            out.append((name, did, text))
            n += 1
            if zlib.crc32((name + '|' + did).encode('utf-8')) % 7 == 0:   # stable choice, independent of generation order
                try:
                    out.append((name, did + '|pretty', pretty(text)))
                except ET.ParseError:
                    pass
    return out


def judge(chunk):
    rd = docs.run_dir()
    vio = []
    oc = collections.Counter()
    for (name, did, text, valid, mut) in chunk:
        p = docs.parse_text(text, rd, 'c09')
        key = [name, did] + ([mut] if mut else [])
        if valid:
            oc['valid_documents'] += 1
            if not p.ok:
                vio.append({'scope': name, 'kind': 'valid-input-refused', 'key': key,
                            'observed': '%s@%s: %s' % (p.exc, p.site, (p.exc_msg or '')[:100]), 'input': text[:400]})
                continue
            s = impl.call(p.value.to_string)
            if not s.ok:
                vio.append({'scope': name, 'kind': 'valid-input-refused', 'key': key + ['to_string'],
                            'observed': '%s: %s' % (s.exc, (s.exc_msg or '')[:100]), 'input': text[:400]})
                continue
            d = docs.compare(ET.fromstring(text), ET.fromstring(s.value), 'any-numeric')
            if d:
                # the key says HOW the document was altered (first difference), so that a different alteration of a
                # document that is already altered on the pinned tree is a different violation
                vio.append({'scope': name, 'kind': 'valid-input-altered', 'key': key + [d[:160]], 'observed': d, 'input': text[:400]})
            else:
                oc['valid_read_back_equal'] += 1
        else:
            oc['mutants'] += 1
            if not p.ok:
                oc['mutant_raises'] += 1
                continue
            s = impl.call(p.value.to_string)
            if not s.ok:
                oc['mutant_raises'] += 1
                continue
            miss = docs.missing_items(ET.fromstring(text), ET.fromstring(s.value))
            if miss:
                vio.append({'scope': name, 'kind': 'silent-loss', 'key': key, 'observed': [list(m) for m in miss[:3]],
                            'input': text[:400]})
            else:
                oc['mutant_kept_everything'] += 1
    return vio, dict(oc)


def run(tier):
    run_ = core.Run('C09', tier)
    guards = []
    if not jdk.available():
        raise core.InternalError('JDK validator not built (./check setup)')
    names = sorted(n for n in R.partwise_elements() if len(R.partwise_elements()[n]) == 1)
    allgen = []
    for g in core.pmap(gen, [(names[i:i + 8], tier) for i in range(0, len(names), 8)]):
        allgen += g
    # real-world exports
    cdir = os.path.join(core.VERIF, 'corpus')
    for f in sorted(os.listdir(cdir)):
        allgen.append(('score-partwise', 'corpus:' + f, open(os.path.join(cdir, f), encoding='utf-8').read()))
    verdicts = jdk.validate([t for (_, _, t) in allgen])
    items = []
    dropped = 0
    for (name, did, text), (ok, codes, msg) in zip(allgen, verdicts):
        if not ok:
            dropped += 1
            continue
        items.append((name, did, text, True, None))
        if did.startswith('corpus:') or '|pretty' in did:
            continue
        if tier == 'quick' and not (did == 'min' or did == 'attrs:all' or did.startswith('word:') and did.count(',') == 1):
            continue
        for mop in MUTATIONS:
            m = mutate(text if not text.startswith('<?xml') else text[text.index('?>') + 2:], mop)
            if m:
                items.append((name, did, m, False, mop))
    oc = collections.Counter()
    for vio, o in core.pmap(judge, [items[i:i + 80] for i in range(0, len(items), 80)]):
        run_.add_violations(vio)
        for k, v in o.items():
            oc[k] += v
    if oc['valid_documents'] < 1000 or oc['mutants'] < 500:
        guards.append('too few documents')
    if dropped > len(allgen) // 3:
        guards.append('reference generator produced too many invalid documents (%d of %d)' % (dropped, len(allgen)))
    cov = {'states': len(names), 'transitions': len(items), 'traces_validated_against_impl': len(items),
           'generated': len(allgen), 'dropped_as_invalid_by_jdk': dropped, 'counters': dict(oc),
           'samples': [{'element': 'words', 'doc': '<words xml:lang="de">a</words>'},
                       {'element': 'pitch', 'mutation': 'swap-children'}],
           'exhaustive': True,
           'rule': 'reference-grammar documents per declaration (minimal, words <= %d cap %d, attributes, numeric spellings, '
                   'pretty variants, corpus) pre-validated by the JDK; 8 mutation operators at the root'
                   % (WORD_LEN[tier], WORD_CAP[tier])}
    run_.assumptions += ['mutations are applied at the document root and its children', 'JDK validator decides validity of inputs']
    return run_.finish(cov, guard_errors=guards)


def replay(rec):
    text = rec.get('input')
    if not text:
        return {'reproduced': None}
    vio, oc = judge([(rec['scope'], rec['key'][1], text, rec['kind'] != 'silent-loss', rec['key'][2] if len(rec['key']) > 2 else None)])
    return {'reproduced': any(v['kind'] == rec['kind'] for v in vio), 'observed': vio[:1]}
