"""C15 - shortcut syntax is equivalent to the explicit API.

Lock-step twins per element type: one element is driven through `el.xml_a = raw | instance | None`, attribute dot
assignment and constructor keywords, the other through find_child / add_child / replace_child / remove /
value_ and the attribute-dictionary semantics.  All sequences of shortcut operations up to a depth over the
type's child symbols (full alphabet at depth 2 within budget, else reduced), and all attribute assignment
sequences of depth 2 per class.  Same outcome class at every step, same serialisation; reads return the child
that serialisation shows / the stored value, and None (not an error) for allowed-but-unset names."""
import itertools
import collections

from mc import core, impl, explore
from mc.impl import nfa, call
from mc.ref import xsd as R

BUDGET = {'quick': 1500, 'thorough': 30000}
CHUNK = 100
MODES = ('raw', 'inst', 'none')


def outcome_class(o):
    if o.ok:
        return 'ok'
    e = o.exc
    if e in ('XSDWrongAttribute', 'AttributeError'):
        return 'unknown-name'
    return e


def shortcut(el, name, mode):
    attr = 'xml_' + name.replace('-', '_')
    cls = impl.class_for(name)
    if mode == 'raw':
        return call(setattr, el, attr, impl.valid_value(cls))
    if mode == 'inst':
        return call(setattr, el, attr, impl.child(name))
    return call(setattr, el, attr, None)


def explicit(el, name, mode):
    cls = impl.class_for(name)

    def f():
        found = el.find_child(cls.__name__)
        if mode == 'raw':
            if found:
                found.value_ = impl.valid_value(cls)
            else:
                el.add_child(cls(impl.valid_value(cls)))
        elif mode == 'inst':
            if found:
                el.replace_child(found, impl.child(name))
            else:
                el.add_child(impl.child(name))
        else:
            if found:
                el.remove(found)
    return call(f)


def plan(arg):
    T, tier = arg
    full = nfa(T).alphabet
    red = explore.reduced_alphabet(T)
    seqs = None
    for sigma in (full, red):
        ops = [(a, m) for a in sigma for m in MODES]
        d = 1
        while d < 4 and sum(len(ops) ** k for k in range(1, d + 2)) <= BUDGET[tier]:
            d += 1
        if d >= 2 or sigma is red:
            seqs = []
            for k in range(1, d + 1):
                seqs += list(itertools.product(ops, repeat=k))
            return T, d, len(sigma), seqs
    return T, 0, 0, []


def read_back(T, el, sigma):
    """reads: xml_a -> first a-child the serialisation shows, or None"""
    bad = []
    kids = el.get_children(ordered=True)
    for a in sigma:
        o = call(getattr, el, 'xml_' + a.replace('-', '_'))
        first = next((k for k in kids if k.name == a), None)
        if not o.ok:
            bad.append(('unset-read-raises' if first is None else 'read-back-wrong', a, o.exc))
        elif o.value is not first:
            bad.append(('read-back-wrong', a, 'got %s' % (type(o.value).__name__)))
    return bad


def work(arg):
    T, seqs = arg
    vio = []
    oc = collections.Counter()
    sigma = nfa(T).alphabet
    for seq in seqs:
        e1 = impl.fresh(T)
        e2 = impl.fresh(T)
        names_before = []
        bad = None
        for i, (a, m) in enumerate(seq):
            k_before = [c.name for c in e1.get_children(ordered=False)]
            o1 = shortcut(e1, a, m)
            o2 = explicit(e2, a, m)
            c1, c2 = outcome_class(o1), outcome_class(o2)
            s1, s2 = impl.serialise(e1), impl.serialise(e2)
            if c1 != c2 or s1[:2] != s2[:2] or (s1[0] == 'exc' and s1[2] != s2[2]):
                bad = ('surfaces-differ', [k_before, ['Xs', a, m]], {'observed': [c1, c2, list(s1[:3]), list(s2[:3])]})
                break
        oc['sequences'] += 1
        if bad:
            vio.append({'scope': T, 'kind': bad[0], 'key': bad[1], 'trace': [['Xs', a, m] for a, m in seq], **bad[2]})
            oc['differ'] += 1
            continue
        for kind, a, what in read_back(T, e1, sigma):
            vio.append({'scope': T, 'kind': kind, 'key': [[c.name for c in e1.get_children(ordered=False)], a],
                        'trace': [['Xs', x, m] for x, m in seq], 'observed': what})
            oc[kind] += 1
    return vio, dict(oc)


# ---------------------------------------------------------------- attributes

def attr_values(at):
    """(valid, other valid, invalid) Python values for attribute type `at` (None where unknown)"""
    cands = impl._from_sample(at)
    f = R.st_facets(at) if (at and not at.startswith('xs:') and at in R.STYPES) else None
    vals = list(cands)
    if f and f['enum']:
        vals = list(f['enum'][:2]) + vals
    # falsy values first where the type accepts them (0, 0.0, ''): a stored falsy value is still a value
    return [0, 0.0, ''] + vals


def work_attrs(names):
    vio = []
    oc = collections.Counter()
    for name in names:
        kind, t = R.element_type(name)
        if kind != 'complex':
            continue
        cls = impl.class_for(name)
        base = impl.req_attrs(cls, t)
        val = impl.valid_value(cls)
        attrs = [(an, at) for (an, at, req) in R.ctype_attrs(t) if ':' not in an]
        # choose up to 4 attributes: required ones first, then the first optional ones
        req = [x for x in attrs if x[0].replace('-', '_') in base]
        opt = [x for x in attrs if x not in req]
        chosen = (req + opt)[:4]
        steps = []
        for an, at in chosen:
            vs = [v for v in attr_values(at) if call(lambda: cls(val, xsd_check=False, **{an.replace('-', '_'): v})).ok][:3]
            for v in vs:
                steps.append((an, v))
            steps.append((an, None))
            steps.append((an, ('invalid', 'value')))
        steps.append(('bogus-attribute', 'x'))
        for seq in itertools.chain(((s,) for s in steps), itertools.product(steps, repeat=2)):
            oc['attr_sequences'] += 1
            e1 = cls(val, xsd_check=False)          # dot assignment
            model = {}
            bad = None
            for (an, v) in seq:
                o = call(setattr, e1, an.replace('-', '_'), v)
                declared = any(an == x[0] for x in attrs)
                if o.ok:
                    if v is None:
                        model.pop(an, None)
                    else:
                        model[an] = v
                cur = dict(e1.attributes)
                if cur != model:
                    bad = ('surfaces-differ', [name, 'dot-vs-dictionary', an, repr(v)], {'observed': [cur, model]})
                    break
                if not declared and o.ok:
                    bad = ('surfaces-differ', [name, 'undeclared-accepted', an], {})
                    break
                if not declared and o.exc != 'AttributeError':
                    bad = ('surfaces-differ', [name, 'undeclared-error-type', an, o.exc], {})
                    break
                # read back
                r = call(getattr, e1, an.replace('-', '_'))
                if declared and (not r.ok or r.value != model.get(an)):
                    bad = ('read-back-wrong' if r.ok else 'unset-read-raises', [name, 'attr', an, repr(v)],
                           {'observed': r.as_json()})
                    break
            if bad is None:
                # constructor keywords == dot assignments (for sequences without failing / None steps)
                if all(v is not None and not isinstance(v, tuple) and an != 'bogus-attribute' for an, v in seq):
                    kw = {}
                    for an, v in seq:
                        kw[an.replace('-', '_')] = v
                    o = call(lambda: cls(val, xsd_check=False, **kw))
                    if not o.ok or o.value.to_string() != e1.to_string():
                        bad = ('surfaces-differ', [name, 'keyword-vs-dot', [list(map(str, s)) for s in seq]],
                               {'observed': o.as_json() if not o.ok else [o.value.to_string(), e1.to_string()]})
            if bad:
                vio.append({'scope': name, 'kind': bad[0], 'key': bad[1], **bad[2]})
        # constructor keywords given together, one of them None, and an undeclared / invalid one: same element and
        # same errors as the corresponding dot assignments
        good = [(an, v) for (an, v) in steps if v is not None and not isinstance(v, tuple) and an != 'bogus-attribute']
        if len({an for an, v in good}) >= 2:
            (a1, v1) = good[0]
            (a2, v2) = next((an, v) for (an, v) in good if an != a1)
            for label, kw in (('none-first', {a1: None, a2: v2}), ('none-last', {a2: v2, a1: None}),
                              ('none-and-bogus', {a1: None, 'bogus_attribute': 1}),
                              ('none-and-invalid', {a1: None, a2: ('invalid', 'value')})):
                oc['attr_sequences'] += 1
                kwp = {k.replace('-', '_'): v for k, v in kw.items()}
                oc_ = call(lambda: cls(val, xsd_check=False, **kwp))
                e2 = cls(val, xsd_check=False)
                od = None
                for k, v in kwp.items():
                    od = call(setattr, e2, k, v)
                    if not od.ok:
                        break
                same = (oc_.ok == od.ok) and (not oc_.ok or oc_.value.to_string() == e2.to_string())
                if not same:
                    vio.append({'scope': name, 'kind': 'surfaces-differ', 'key': [name, 'keywords-together', label],
                                'observed': [oc_.as_json() if not oc_.ok else oc_.value.to_string(),
                                             od.as_json() if not od.ok else e2.to_string()]})
    return vio, dict(oc)


# ---------------------------------------------------------------- (3) shortcuts from non-initial states

PREFIX_DEPTH = {'quick': 2, 'thorough': 3}


def work_prefix(arg):
    """twins brought into the same state by the EXPLICIT api first (add_child with and without forward=, so that several
    same-named children exist and their insertion order may differ from document order), then one shortcut step on one
    twin and its documented explicit equivalent on the other; afterwards every xml_* read must address the same child
    (by insertion position) as find_child does on the twin."""
    T, tier = arg
    vio = []
    oc = collections.Counter()
    fa = explore.forward_alphabet(T)
    mult = explore.leaf_multiplicity(T)
    sigma = fa if fa else explore.reduced_alphabet(T)[:3]
    pops = [('A', a) for a in sigma] + [('F', a, k) for a in sigma if mult[a] > 1 for k in range(min(mult[a], 3))]
    for d in range(1, PREFIX_DEPTH[tier] + 1):
        for prefix in itertools.product(pops, repeat=d):
            st1 = impl.build(T, prefix)
            if not all(o.ok for o in st1.outcomes):
                continue
            oc['prefix_states'] += 1
            present = []
            for n in st1.names():
                if n not in present:
                    present.append(n)
            for a in present:
                for m in MODES:
                    s1, s2 = impl.build(T, prefix), impl.build(T, prefix)
                    e1, e2 = s1.el, s2.el
                    o1, o2 = shortcut(e1, a, m), explicit(e2, a, m)
                    oc['prefix_steps'] += 1
                    r1, r2 = impl.serialise(e1), impl.serialise(e2)
                    key = [st1.knames(), ['Xs', a, m]]
                    if outcome_class(o1) != outcome_class(o2) or r1[:2] != r2[:2] or (r1[0] == 'exc' and r1[2] != r2[2]):
                        vio.append({'scope': T, 'kind': 'surfaces-differ', 'key': key + ['after-explicit-prefix'],
                                    'trace': [list(x) for x in prefix] + [['Xs', a, m]],
                                    'observed': [outcome_class(o1), outcome_class(o2), list(r1[:3]), list(r2[:3])]})
                        continue
                    k1 = list(e1.get_children(ordered=False))
                    k2 = list(e2.get_children(ordered=False))
                    for b in present:
                        rd = call(getattr, e1, 'xml_' + b.replace('-', '_'))
                        fd = call(e2.find_child, impl.class_for(b).__name__)
                        p1 = next((i for i, c in enumerate(k1) if c is rd.value), None) if rd.ok else 'exc:' + rd.exc
                        p2 = next((i for i, c in enumerate(k2) if c is fd.value), None) if fd.ok else 'exc:' + fd.exc
                        if p1 != p2:
                            vio.append({'scope': T, 'kind': 'read-back-wrong', 'key': key + ['read', b],
                                        'trace': [list(x) for x in prefix] + [['Xs', a, m]],
                                        'observed': {'xml_read_position': p1, 'find_child_position': p2,
                                                     'children': [c.name for c in k1]}})
                            break
    return vio, dict(oc)


def run(tier):
    run_ = core.Run('C15', tier)
    guards = []
    plans = core.pmap(plan, [(T, tier) for T in impl.TYPES])
    tasks = []
    per_type = {}
    n = 0
    for T, d, ns, seqs in plans:
        per_type[T] = {'depth': d, 'symbols': ns, 'sequences': len(seqs)}
        n += len(seqs)
        for i in range(0, len(seqs), CHUNK):
            tasks.append((T, seqs[i:i + CHUNK]))
    oc = collections.Counter()
    for vio, o in core.pmap(work, tasks):
        run_.add_violations(vio)
        for k, v in o.items():
            oc[k] += v
    names = sorted(R.partwise_elements())
    for vio, o in core.pmap(work_attrs, [names[i:i + 8] for i in range(0, len(names), 8)]):
        run_.add_violations(vio)
        for k, v in o.items():
            oc[k] += v
    for vio, o in core.pmap(work_prefix, [(T, tier) for T in impl.TYPES]):
        run_.add_violations(vio)
        for k, v in o.items():
            oc[k] += v
    if oc['sequences'] == 0 or oc['attr_sequences'] == 0 or oc['prefix_steps'] == 0:
        guards.append('nothing explored')
    run_.assumptions += ['explicit twin implements the documented mapping of _convert_attribute_to_child',
                         'namespaced attributes are left to C04']
    cov = {'states': n + oc['attr_sequences'] + oc['prefix_states'], 'transitions': n + oc['attr_sequences'] + oc['prefix_steps'],
           'traces_validated_against_impl': n + oc['attr_sequences'] + oc['prefix_steps'], 'counters': dict(oc), 'per_type': per_type,
           'samples': [{'type': 'pitch', 'sequence': [['Xs', 'step', 'raw'], ['Xs', 'step', 'inst']]},
                       {'class': 'note', 'attribute_sequence': [['print-object', 'yes'], ['print-object', None]]},
                       {'type': 'credit', 'explicit_prefix': [['A', 'credit-words'], ['F', 'credit-words', 1]],
                        'then': ['Xs', 'credit-words', 'inst']}],
           'exhaustive': True,
           'rule': 'all shortcut-operation sequences up to per-type depth (budget %d) x lock-step explicit twin; all '
                   'attribute assignment sequences of length <= 2 over <= 4 attributes per class; every state reached by '
                   '<= %d successful explicit additions (forward placements included) x every shortcut on a held name'
                   % (BUDGET[tier], PREFIX_DEPTH[tier])}
    return run_.finish(cov, guard_errors=guards)


def replay(rec):
    if 'trace' in rec:
        seq = [(op[1], op[2]) for op in rec['trace']]
        vio, oc = work((rec['scope'], [seq]))
        return {'reproduced': any(v['kind'] == rec['kind'] for v in vio), 'observed': vio[:2]}
    vio, oc = work_attrs([rec['scope']])
    hit = [v for v in vio if core.jkey(v['key']) == core.jkey(rec['key'])]
    return {'reproduced': bool(hit), 'observed': hit[:1]}
