"""C08 - the library's own output re-parses to the same document.

Documents are built through the API from the reference model (model-driven), per element class:
minimal complete element; every value shape its content type accepts (ints, integral and fractional floats, tiny/huge
floats, every enumeration literal, strings with interior/exterior whitespace and non-ASCII text); every declared
attribute alone with representative values and all together; every content-model word up to length 2 (thorough 3)
with minimal children; each class also embedded in every parent type that can hold it.  Oracle: write -> file ->
parse_musicxml -> to_string has the same typed infoset (decimal spelling may differ only for decimal-typed content;
integers identical), and a second round trip is byte-identical to the first."""
import os
import itertools
import collections
import xml.etree.ElementTree as ET

from mc import core, impl, docs, explore
from mc.impl import nfa, call
from mc.ref import xsd as R
from mc.ref import values as V
from mc.checks.C18 import word_with

WORD_LEN = {'quick': 2, 'thorough': 3}
WORD_BUDGET = {'quick': 150, 'thorough': 3000}
NUM_VALUES = [0, 1, 4, -1, 100, 4.0, 2.5, 0.5, 100.0, 1e-05, 1.25e-05, 2.5e-07, -7.5e-06, 12345678.5, 1.5e+16,
              9007199254740993]
STR_VALUES = ['a', 'a b', ' a', 'a  b', 'é♭\U0001d11e', '<&>"', '4', '4.0']


def value_candidates(t):
    out = list(NUM_VALUES) + list(STR_VALUES)
    if t and not t.startswith('xs:') and t in R.STYPES:
        out = list(R.st_facets(t)['enum']) + out
    if t:
        out = impl._from_sample(t) + out
    seen, res = set(), []
    for v in out:
        k = (type(v).__name__, v)
        if k not in seen:
            seen.add(k)
            res.append(v)
    return res


def recipes(name, tier):
    """yield (recipe id, builder) pairs; builder() -> XMLElement (may raise)"""
    cls = impl.class_for(name)
    kind, t = R.element_type(name)
    tt = docs.text_type(name)
    yield 'min', lambda: impl.minimal(name)
    if tt:
        base = impl.req_attrs(cls, t) if kind == 'complex' else {}
        for v in value_candidates(tt):
            yield 'value:%s:%r' % (type(v).__name__, v), (lambda v=v: cls(v, **base))
    if kind == 'complex':
        attrs = [(an, at) for (an, at, req) in R.ctype_attrs(t) if ':' not in an and at]
        allkw = {}
        for an, at in attrs:
            cands = value_candidates(at)[:12] if tier == 'thorough' else value_candidates(at)[:5]
            first = True
            for v in cands:
                def b(an=an, v=v):
                    e = impl.minimal(name)
                    e._set_attributes({an: v}) if an == 'name' else setattr(e, an.replace('-', '_'), v)
                    return e
                if call(lambda: cls(impl.valid_value(cls), xsd_check=False, **{an.replace('-', '_'): v})).ok:
                    yield 'attr:%s=%s:%r' % (an, type(v).__name__, v), b
                    if first:
                        allkw[an] = v
                        first = False
        if len(allkw) > 1:
            def ball():
                e = impl.minimal(name)
                e._set_attributes(dict(allkw))
                return e
            yield 'attrs:all', ball
        if R.content_model(t) is not None:
            A = nfa(t)
            ws = [w for w in A.words(WORD_LEN[tier]) if w][:WORD_BUDGET[tier]]
            for w in ws:
                def bw(w=w):
                    e = cls(impl.valid_value(cls), **impl.req_attrs(cls, t))
                    for a in w:
                        e.add_child(impl.minimal(a))
                    return e
                yield 'word:' + ','.join(w), bw


def roundtrip(el, rd):
    """returns (status, detail): 'ok' | 'unserialisable' | violation kind"""
    so = call(el.to_string)
    if not so.ok:
        return 'unserialisable', so.exc
    text0 = so.value
    p1 = docs.parse_text(text0, rd, 'c08')
    if not p1.ok:
        return 'own-output-unparseable', '%s: %s' % (p1.exc, (p1.exc_msg or '')[:120])
    s1 = call(p1.value.to_string)
    if not s1.ok:
        return 'own-output-unparseable', 'reparsed tree refuses to serialise: %s' % s1.exc
    d = docs.compare(ET.fromstring(text0), ET.fromstring(s1.value), 'decimal-only')
    if d:
        kind = 'roundtrip-number' if ('text' in d or '@' in d) and any(ch.isdigit() for ch in d) and 'children' not in d else 'roundtrip-infoset'
        return kind, d
    p2 = docs.parse_text(s1.value, rd, 'c08')
    if not p2.ok:
        return 'second-roundtrip-differs', 'second parse raises %s' % p2.exc
    s2 = call(p2.value.to_string)
    if not s2.ok or s2.value != s1.value:
        return 'second-roundtrip-differs', 'second output differs'
    return 'ok', None


def work(names_tier):
    names, tier = names_tier
    rd = docs.run_dir()
    vio = []
    oc = collections.Counter()
    for name in names:
        for rid, build in recipes(name, tier):
            o = call(build)
            if not o.ok:
                oc['not_constructible'] += 1
                continue
            st, det = roundtrip(o.value, rd)
            oc[st] += 1
            if st not in ('ok', 'unserialisable'):
                vio.append({'scope': name, 'kind': st, 'key': [name, rid], 'observed': det})
    return vio, dict(oc)


def parent_pairs():
    out = []
    for P in impl.TYPES:
        for q in nfa(P).alphabet:
            out.append((P, q))
    return out


def work_embed(chunk):
    rd = docs.run_dir()
    vio = []
    oc = collections.Counter()
    for (P, q) in chunk:
        w = word_with(P, q)
        if w is None:
            continue
        pn = impl.REP[P]

        def build():
            e = impl.fresh(P)
            for a in w:
                e.add_child(impl.minimal(a))
            return e
        o = call(build)
        if not o.ok:
            oc['not_constructible'] += 1
            continue
        st, det = roundtrip(o.value, rd)
        oc[st] += 1
        if st not in ('ok', 'unserialisable'):
            vio.append({'scope': pn, 'kind': st, 'key': [pn, 'embed:' + q], 'observed': det})
    return vio, dict(oc)


def run(tier):
    run_ = core.Run('C08', tier)
    guards = []
    names = sorted(n for n in R.partwise_elements() if len(R.partwise_elements()[n]) == 1)
    oc = collections.Counter()
    for vio, o in core.pmap(work, [(names[i:i + 4], tier) for i in range(0, len(names), 4)]):
        run_.add_violations(vio)
        for k, v in o.items():
            oc[k] += v
    pp = parent_pairs()
    for vio, o in core.pmap(work_embed, [pp[i:i + 12] for i in range(0, len(pp), 12)]):
        run_.add_violations(vio)
        for k, v in o.items():
            oc[k] += v
    # the whole-document entry point: XMLScorePartwise.write()
    from musicxml.parser.parser import parse_musicxml
    sp = call(impl.minimal, 'score-partwise')
    if sp.ok:
        path = os.path.join(docs.run_dir(), 'c08_write.xml')
        w = call(sp.value.write, path)
        if w.ok:
            p = call(parse_musicxml, path)
            if not p.ok or p.value.to_string() != sp.value.to_string():
                run_.violation('score-partwise', 'roundtrip-infoset', ['score-partwise', 'write()'])
            oc['write_roundtrip'] += 1
    if oc['ok'] < 1000:
        guards.append('fewer than 1000 documents round-tripped')
    ndocs = sum(v for k, v in oc.items() if k not in ('not_constructible',))
    cov = {'states': len(names), 'transitions': ndocs, 'traces_validated_against_impl': ndocs, 'outcomes': dict(oc),
           'samples': [{'class': 'duration', 'recipe': 'value:float:4.0'}, {'class': 'note', 'recipe': 'word:pitch,duration'},
                       {'class': 'measure', 'recipe': 'embed:note'}],
           'exhaustive': True,
           'rule': 'per class: minimal element, all accepted value shapes, each attribute x representative values, all '
                   'attributes, content-model words <= %d (cap %d) with minimal children; every (parent type, child) embedding'
                   % (WORD_LEN[tier], WORD_BUDGET[tier])}
    run_.assumptions += ['documents the matcher refuses to build or serialise are skipped and counted (C02\'s subject)']
    return run_.finish(cov, guard_errors=guards)


def replay(rec):
    name, rid = rec['key']
    if rid.startswith('embed:'):
        T = R.element_type(name)[1]
        vio, oc = work_embed([(T, rid[6:])])
    else:
        vio, oc = work(([name], 'thorough'))
    hit = [v for v in vio if core.jkey(v['key']) == core.jkey(rec['key'])]
    return {'reproduced': bool(hit), 'observed': hit[:1]}
