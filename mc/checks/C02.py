"""C02 - schema-valid child sequences are accepted and kept in document order.

Model-driven: traces of the reference DFA of every content model are replayed against the real element.
Families: (i) all accepted words up to the largest length within the per-type budget, (ii) transition cover
(thorough: 2-switch cover), (iii) every simple DFA cycle (length <= 3) pumped 1..3 (thorough 4) times.
"""
import collections

from mc import core, impl
from mc.impl import nfa, build, serialise, child_tags

BUDGET = {'quick': 3000, 'thorough': 60000}
PUMP = {'quick': 3, 'thorough': 4}
CYCLES = {'quick': 150, 'thorough': 2000}
CHUNK = 150


def word_families(T, tier):
    A = nfa(T)
    order, trans, acc = A.dfa()
    fam = collections.OrderedDict()
    # (i) all words up to L_T
    L = 0
    while L < 12 and A.count_words(L + 1, cap=BUDGET[tier] + 1) <= BUDGET[tier]:
        L += 1
        if A.count_words(L) == A.count_words(L - 1) and L > len(order) + 1:
            break
    for w in A.words(L):
        fam.setdefault(w, 'all<=%d' % L)
    # (ii) transition cover
    to = A.shortest_to()
    covered = set()
    for (i, a), j in sorted(trans.items()):
        if i not in to:
            continue
        w = to[i] + (a,) + A.shortest_from(j)
        fam.setdefault(w, 'tcover')
        if tier == 'thorough':
            for (j2, b), k in sorted(trans.items()):
                if j2 == j:
                    w2 = to[i] + (a, b) + A.shortest_from(k)
                    fam.setdefault(w2, '2switch')
    # (iii) pumping
    cycles = A.simple_cycles(3)
    # a cycle length is either taken completely or not at all (budget); the shortest cycle through every state
    # that lies on a cycle is always taken
    chosen = []
    for ln in (1, 2, 3):
        cl = [c for c in cycles if len(c[1]) == ln]
        if len(chosen) + len(cl) <= CYCLES[tier]:
            chosen += cl
    on_cycle = {}
    for (s, cyc) in cycles:
        # states visited by this cycle
        cur = s
        for a in cyc:
            if cur not in on_cycle or len(on_cycle[cur][1]) > len(cyc):
                on_cycle[cur] = (s, cyc)
            cur = trans[(cur, a)]
    for sc in sorted(set(on_cycle.values())):
        if sc not in chosen:
            chosen.append(sc)
    for (s, cyc) in chosen:
        if s not in to:
            continue
        for n in range(1, PUMP[tier] + 1):
            w = to[s] + cyc * n + A.shortest_from(s)
            fam.setdefault(w, 'pump')
    return fam, L, len(order), len(trans)


def judge(T, w):
    """replay word w on a fresh element; returns None or (kind, key, detail)"""
    hist = [('A', a) for a in w]
    st = build(T, hist)
    for n, o in enumerate(st.outcomes):
        if not o.ok:
            return ('rejects-viable-prefix', list(w[:n + 1]), {'observed': o.as_json()})
    s = serialise(st.el)
    if s[0] != 'ok' and s[3]:
        # raised from the required-ATTRIBUTES check, i.e. after the required-children check passed (an attribute
        # the harness cannot supply, or the namespaced-attribute table defect): an attribute matter (C03/C04), the
        # children are judged through the ordered view alone
        tags = [c.name for c in st.el.get_children(ordered=True)]
    elif s[0] != 'ok':
        return ('final-check-refuses', list(w), {'observed': list(s)})
    else:
        tags = child_tags(s[1])
    kids = st.el.get_children(ordered=True)
    same_ident = len(kids) == len(st.made) and all(k is m for k, m in zip(kids, st.made))
    if tags != list(w) or not same_ident:
        # shortest prefix whose ordered view differs
        for n in range(1, len(w) + 1):
            st2 = build(T, hist[:n])
            k2 = st2.el.get_children(ordered=True)
            if not (len(k2) == n and all(k is m for k, m in zip(k2, st2.made))):
                return ('reordered', list(w[:n]), {'observed': [c.name for c in k2]})
        return ('reordered', list(w), {'observed': tags})
    return None


def plan(arg):
    T, tier = arg
    fam, L, nstates, ntrans = word_families(T, tier)
    items = list(fam.items())
    return T, L, nstates, ntrans, items


def work(arg):
    T, items = arg
    A = nfa(T)
    order, trans, acc = A.dfa()
    vio = []
    cov_trans = set()
    outcomes = collections.Counter()
    for w, f in items:
        w = tuple(w)
        s = 0
        for a in w:
            cov_trans.add((s, a))
            s = trans[(s, a)]
        r = judge(T, w)
        outcomes[r[0] if r else 'ok'] += 1
        if r:
            vio.append({'scope': T, 'kind': r[0], 'key': r[1], 'trace': [['A', a] for a in w], 'family': f, **r[2]})
    return {'T': T, 'cov': cov_trans, 'vio': vio, 'outcomes': dict(outcomes)}


def run(tier):
    run_ = core.Run('C02', tier)
    plans = core.pmap(plan, [(T, tier) for T in impl.TYPES])
    tasks = []
    guards = []
    tot = collections.Counter()
    per_type = {}
    samples = []
    for (T, L, ns, nt, items) in plans:
        per_type[T] = {'L': L, 'words': len(items), 'dfa': [ns, nt]}
        tot['words'] += len(items)
        tot['states'] += ns
        tot['trans'] += nt
        for i in range(0, len(items), CHUNK):
            tasks.append((T, items[i:i + CHUNK]))
        if len(samples) < 6:
            samples.append({'type': T, 'words': [list(w) for w, f in items[-2:]]})
    # longest chunks first for balance; results are order-independent (set union / keyed records)
    res = core.pmap(work, tasks)
    covs = collections.defaultdict(set)
    for r in res:
        run_.add_violations(r['vio'])
        covs[r['T']] |= r['cov']
        for k, v in r['outcomes'].items():
            tot['o:' + k] += v
    for T in per_type:
        tot['cov'] += len(covs[T])
        if len(covs[T]) != per_type[T]['dfa'][1]:
            guards.append(f"type {T}: DFA transitions covered {len(covs[T])} != {per_type[T]['dfa'][1]}")
    if len(plans) != 94:
        guards.append(f'{len(plans)} types explored, expected 94')
    if tot['o:ok'] == 0:
        guards.append('no word was accepted at all')
    run_.assumptions += ['children are opaque (unchecked) instances so only the parent content model is judged',
                         'reference automata are my reading of the pinned schema copy /verif/spec (cross-checked by C03 and setup self-test)']
    cov = {'states': tot['states'], 'transitions': tot['trans'], 'traces_validated_against_impl': tot['words'],
           'dfa_transitions_covered': tot['cov'], 'samples': samples, 'exhaustive': True,
           'rule': 'all accepted words up to per-type length L (budget %d words), transition cover%s, simple cycles pumped 1..%d'
                   % (BUDGET[tier], ' + 2-switch cover' if tier == 'thorough' else '', PUMP[tier]),
           'outcome_classes': {k[2:]: v for k, v in tot.items() if k.startswith('o:')},
           'per_type': per_type}
    return run_.finish(cov, guard_errors=guards)


def replay(rec):
    T = rec['scope']
    w = [op[1] for op in rec['trace']]
    r = judge(T, tuple(w))
    return {'reproduced': r is not None and r[0] == rec['kind'], 'observed': r, 'word': w, 'type': T}
