"""C16 - serialisation is well-formed, escaping-safe, deterministic and side-effect free.

(a) escaping: every string of length <= 2 (thorough 3) over a character alphabet of markup characters, quotes,
    whitespace, non-ASCII and non-BMP characters, in every text position (every element class whose type accepts
    it) and in one host attribute per (class, attribute type); alone and nested in a parent: a standard XML parser
    must recover exactly the strings and the structure; (c) the nested and the standalone serialisation agree.
(b) purity/determinism: on the structural exploration every successful to_string (element or child) is followed
    by a fingerprint comparison with the history that did not call it; repeated calls return the same text.
(c) every child of a minimal complete element of each type serialises alone to the same infoset as inside it."""
import itertools
import collections
import xml.etree.ElementTree as ET

from mc import core, impl, explore, structcheck
from mc.ref import xsd as R

ALPHABET = ['<', '>', '&', '"', "'", ' ', '\t', '\n', ']]>', '\x85', '\u2028', 'é', '♭', '\U0001d11e', ' ', 'a']
MAXLEN = {'quick': 2, 'thorough': 3}
BFS_BUDGET = {'quick': 1500, 'thorough': 25000}
CHUNK = 8


def strings(n):
    out = []
    for k in range(1, n + 1):
        for t in itertools.product(ALPHABET, repeat=k):
            out.append(''.join(t))
    return out


def infoset(e):
    def txt(t):
        return None if t is None or not t.strip() else t
    return (e.tag, tuple(sorted(e.attrib.items())), txt(e.text), tuple(infoset(c) for c in e))


def hosts():
    """(element name, 'text', None) and (element name, 'attr', attribute name) hosts from the reference tables"""
    out = []
    seen_attr_types = set()
    for name in sorted(R.partwise_elements()):
        kind, t = R.element_type(name)
        if kind == 'simple' or R.simple_content_base(t):
            out.append((name, 'text', None))
        if kind == 'complex':
            for (an, at, req) in R.ctype_attrs(t):
                if ':' in an or at is None:
                    continue
                root = at if at.startswith('xs:') else R.st_root_builtin(at)
                if root in ('xs:string', 'xs:token', 'xs:NMTOKEN', 'xs:ID', 'xs:IDREF', None):
                    if (t, at) in seen_attr_types:
                        continue
                    seen_attr_types.add((t, at))
                    out.append((name, 'attr', an))
    return out


def work_a(arg):
    host_list, maxlen = arg
    strs = strings(maxlen)
    vio = []
    oc = collections.Counter()
    wrapper_cls = impl.class_for('credit')
    for (name, where, an) in host_list:
        cls = impl.class_for(name)
        kind, t = R.element_type(name)
        base_attrs = impl.req_attrs(cls, t) if kind == 'complex' else {}
        try:
            base_val = impl.valid_value(cls)
        except RuntimeError:
            continue
        for s in strs:
            if where == 'text':
                o = impl.call(lambda: cls(s, xsd_check=True, **base_attrs))
            else:
                def mk():
                    # a complete element (reference-minimal content) so that the checked serialisation can succeed
                    e = impl.minimal(name)
                    if not impl.call(e.to_string).ok:
                        e = cls(base_val, xsd_check=False, **base_attrs)
                    setattr(e, an.replace('-', '_'), s)
                    return e
                o = impl.call(mk)
            if not o.ok:
                oc['rejected'] += 1
                continue
            el = o.value
            oc['accepted'] += 1
            key = [name, where, an, s]
            so = impl.call(el.to_string)
            if not so.ok:
                oc['unserialisable'] += 1
                continue
            try:
                p = ET.fromstring(so.value)
            except ET.ParseError as e:
                vio.append({'scope': name, 'kind': 'not-well-formed', 'key': key, 'observed': [so.value[:200], str(e)]})
                continue
            got = p.text if where == 'text' else p.attrib.get(an)
            if got != s or p.tag != name or (where == 'text' and len(p) != 0):
                vio.append({'scope': name, 'kind': 'string-not-recovered', 'key': key, 'observed': [got, so.value[:200]]})
                continue
            # nested: inside an unchecked parent, twice; (c) same infoset alone and nested; determinism
            w = wrapper_cls(xsd_check=False)
            w.add_child(el)
            other = impl.child(name)
            w.add_child(other)
            wo = impl.call(w.to_string)
            wo2 = impl.call(w.to_string)
            so2 = impl.call(el.to_string)
            if not (wo.ok and wo2.ok and so2.ok) or wo.value != wo2.value:
                vio.append({'scope': name, 'kind': 'nondeterministic', 'key': key,
                            'observed': [wo.as_json(), wo2.as_json()]})
                continue
            try:
                wp = ET.fromstring(wo.value)
                alone = infoset(ET.fromstring(so2.value))
            except ET.ParseError as e:
                vio.append({'scope': name, 'kind': 'not-well-formed', 'key': key + ['nested'], 'observed': str(e)})
                continue
            if len(wp) != 2 or infoset(wp[0]) != alone or infoset(p) != alone:
                vio.append({'scope': name, 'kind': 'subtree-differs', 'key': key, 'observed': [wo.value[:300], so2.value[:200]]})
            oc['recovered'] += 1
    return vio, dict(oc)


def work_c(T):
    """children of a minimal complete element: alone vs inside"""
    vio = []
    n = 0
    name = impl.REP[T]
    o = impl.call(impl.minimal, name)
    if not o.ok:
        return vio, 0, 1
    el = o.value
    whole = impl.call(el.to_string)
    if not whole.ok:
        return vio, 0, 1
    wp = ET.fromstring(whole.value)
    kids = el.get_children(ordered=True)
    for i, (c, sub) in enumerate(zip(kids, list(wp))):
        co = impl.call(c.to_string)
        n += 1
        if not co.ok or infoset(ET.fromstring(co.value)) != infoset(sub):
            vio.append({'scope': T, 'kind': 'subtree-differs', 'key': [name, 'minimal', i, c.name],
                        'observed': [co.value if co.ok else co.as_json(), ET.tostring(sub, encoding='unicode')]})
    again = impl.call(el.to_string)
    if not again.ok or again.value != whole.value:
        vio.append({'scope': T, 'kind': 'nondeterministic', 'key': [name, 'minimal-after-children'],
                    'observed': [whole.value[:300], again.value[:300] if again.ok else again.as_json()]})
    return vio, n, 0


def apply_mut(st, m):
    if m[0] != 'Leaf':
        return impl.apply(st, m)
    from mc.checks.C14 import attr_info_for
    leaf = st.made[m[1]]
    an, v1, v2 = attr_info_for(leaf.name)
    if an is not None:
        return impl.call(setattr, leaf, an.replace('-', '_'), v1)
    # no attribute to set: give the leaf a child of its own (leaves are unchecked instances)
    return impl.call(leaf.add_child, impl.child('fifths'))


def work_nested(arg):
    """(d) purity in nested trees: W (unchecked wrapper) > Q (checked, type T) > opaque children.  For every word w
    (length <= 2 over the reduced alphabet) and every single mutation m of Q (remove each child, add each of the first
    symbols, replace the first child, change the value of the first child): serialise W, apply m, serialise W - the
    second text must equal that of the same tree mutated WITHOUT the interposed serialisation (also when the
    interposed call was made on Q or on the leaf instead of W)."""
    T, tier = arg
    vio = []
    n = 0
    sigma = explore.reduced_alphabet(T)
    name = impl.REP[T]
    wcls = impl.class_for('credit')
    words = [()] + [(a,) for a in sigma] + [(a, b) for a in sigma[:6] for b in sigma[:6]]

    def make(w):
        W = wcls(xsd_check=False)
        st = impl.State(impl.fresh(T))
        W.add_child(st.el)
        for a in w:
            impl.apply(st, ('A', a))
        return W, st

    for w in words:
        W0, st0 = make(w)
        if not all(o.ok for o in st0.outcomes):
            continue
        muts = [('R', i) for i in st0.model] + [('A', a) for a in sigma[:3]]
        if st0.model:
            muts.append(('P', st0.model[0], st0.made[st0.model[0]].name))
            # third level: change the first leaf itself (an attribute or its value); W and Q stay untouched
            muts.append(('Leaf', st0.model[0]))
        for m in muts:
            Wb, stb = make(w)
            ob = apply_mut(stb, m)
            want = impl.serialise(Wb)
            for who in ('wrapper', 'element', 'leaf'):
                if who == 'leaf' and not st0.model:
                    continue
                Wa, sta = make(w)
                tgt = Wa if who == 'wrapper' else (sta.el if who == 'element' else sta.made[sta.model[0]])
                impl.call(tgt.to_string)
                oa = apply_mut(sta, m)
                got = impl.serialise(Wa)
                n += 1
                if oa.ok != ob.ok or got[:2] != want[:2]:
                    vio.append({'scope': T, 'kind': 'serialisation-side-effect',
                                'key': [list(w), list(m), 'nested', who],
                                'observed': [list(got[:2])[1][:300] if got[0] == 'ok' else list(got[:3]),
                                             list(want[:2])[1][:300] if want[0] == 'ok' else list(want[:3])]})
    return vio, n


def run(tier):
    from mc import obscheck  # noqa: F401
    run_ = core.Run('C16', tier)
    r1 = explore.r1_prepare()
    guards = []
    hs = hosts()
    tasks = [(hs[i:i + CHUNK], MAXLEN[tier]) for i in range(0, len(hs), CHUNK)]
    oc = collections.Counter()
    for vio, o in core.pmap(work_a, tasks):
        run_.add_violations(vio)
        for k, v in o.items():
            oc[k] += v
    nsub = 0
    skipped_min = 0
    for vio, n, sk in core.pmap(work_c, impl.TYPES):
        run_.add_violations(vio)
        nsub += n
        skipped_min += sk
    nnested = 0
    for vio, n in core.pmap(work_nested, [(T, tier) for T in impl.TYPES]):
        run_.add_violations(vio)
        nnested += n
    specs = [explore.Spec(T, 'ser', BFS_BUDGET[tier], 'C16b') for T in impl.TYPES]
    res = explore.run_bfs(specs, structcheck.FACTORIES)
    tot = collections.Counter()
    ost = collections.Counter()
    per_type = {}
    for key in sorted(res):
        r = res[key]
        run_.add_violations(r['vio'])
        tot['states'] += r['states']
        tot['transitions'] += r['transitions']
        per_type[r['T']] = {'depth': r['depth'], 'transitions': r['transitions'], 'states': r['states']}
        for k, v in r['ostats'].items():
            ost[k] += v
    if oc['recovered'] == 0:
        guards.append('no string recovered in part (a)')
    if ost.get('successful_serialisations', 0) == 0:
        guards.append('no successful serialisation judged in part (b)')
    if nsub == 0:
        guards.append('no subtree compared in part (c)')
    ns = len(strings(MAXLEN[tier]))
    run_.assumptions += ['character alphabet %r; carriage return excluded by the property' % ALPHABET,
                         'fingerprint depth k=1; alphabet reduction R1; opaque children in part (b)']
    cov = {'states': tot['states'], 'transitions': tot['transitions'] + oc['accepted'] + nsub,
           'traces_validated_against_impl': tot['transitions'] + oc['accepted'] + nsub,
           'escaping': {'hosts': len(hs), 'strings': ns, 'offers': len(hs) * ns, **dict(oc)},
           'subtrees_compared': nsub, 'nested_serialise_mutate_serialise_runs': nnested, 'minimal_elements_not_buildable': skipped_min,
           'bfs_counters': dict(ost), 'per_type': per_type,
           'samples': [{'host': list(hs[0]), 'string': '<&'}, {'host': list(hs[-1]), 'string': ']]>♭'},
                       {'type': 'note', 'history': [['A', 'pitch'], ['S', False], ['A', 'duration']]}],
           'exhaustive': True, 'r1_check': r1,
           'rule': '(a) all strings of length <= %d over the alphabet x all text/attribute hosts; (b) BFS with '
                   'to_string on element and children as operations, budget %d; (c) minimal elements of all 94 types'
                   % (MAXLEN[tier], BFS_BUDGET[tier])}
    return run_.finish(cov, guard_errors=guards)


def replay(rec):
    if len(rec.get('key', [])) == 4 and rec['key'][2] == 'nested':
        vio, n = work_nested((rec['scope'], 'quick'))
        hit = [v for v in vio if core.jkey(v['key']) == core.jkey(rec['key'])]
        return {'reproduced': bool(hit), 'observed': hit[:1]}
    if rec['kind'] in ('serialisation-side-effect',) or (rec['kind'] == 'nondeterministic' and 'trace' in rec):
        from mc import obscheck  # noqa: F401
        return structcheck.replay_struct(rec, 'C16b')
    key = rec['key']
    if len(key) >= 2 and key[1] in ('text', 'attr'):
        vio, oc = work_a(([(key[0], key[1], key[2])], 3))
        hit = [v for v in vio if core.jkey(v['key']) == core.jkey(key)]
        return {'reproduced': bool(hit), 'observed': hit[:1]}
    vio, n, sk = work_c(rec['scope'])
    return {'reproduced': any(core.jkey(v['key']) == core.jkey(key) for v in vio), 'observed': vio[:2]}
