"""C03 - every element class is a faithful translation of its XSD declaration.

All sub-claims are finite comparisons against the reference reading of the pinned schema; the content-model claim
is decided on automata (BFS of the product of the determinised reference automaton and the automaton read off the
library's per-type container template AND off a fresh instance's container) and bound to the code by replaying all
words up to length 3 (thorough 4) on the real element."""
import os
import inspect
import itertools
import collections
import xml.etree.ElementTree as ET

from mc import core, impl
from mc.impl import nfa, build, serialise, child_tags
from mc.ref import xsd as R
from mc.ref.automata import NFA, product_equivalent

WORD_BUDGET = {'quick': 2500, 'thorough': 40000}
ANON_CLASS = {'score-partwise': 'XSDComplexTypeScorePartwise', 'part': 'XSDComplexTypePart',
              'measure': 'XSDComplexTypeMeasure', 'directive': 'XSDComplexTypeDirective'}


def st_class_name(t):
    t = t.split(':', 1)[1] if ':' in t else t
    return 'XSDSimpleType' + ''.join(p[0].upper() + p[1:] for p in t.split('-'))


def ct_class_name(t):
    return ANON_CLASS.get(t) if t in ANON_CLASS and t not in R.CTYPES else 'XSDComplexType' + R.camel(t)


def read_container(node):
    c = node.content
    mn = node.min_occurrences
    mx = None if node.max_occurrences == 'unbounded' else node.max_occurrences
    cn = type(c).__name__
    if cn == 'XSDElement':
        return ('el', c.name, mn, mx)
    kids = [read_container(k) for k in node.get_children()]
    if cn == 'XSDChoice':
        return ('cho', kids, mn, mx)
    return ('seq', kids, mn, mx)


def infoset(e):
    def t(x):
        return None if x is None or not x.strip() else x.strip()
    return (e.tag, tuple(sorted(e.attrib.items())), t(e.text), tuple(infoset(c) for c in e))


def work_lang(arg):
    T, tier = arg
    vio = []
    n = 0
    import musicxml.xmlelement.containers as C
    tname = ct_class_name(T)
    ref = nfa(T)
    prod_states = 0
    for src in ('template', 'fresh-instance'):
        try:
            if src == 'template':
                root = C.containers[tname]
            else:
                root = impl.fresh(T).child_container_tree
            lib = NFA(read_container(root))
        except Exception as e:
            vio.append({'scope': T, 'kind': 'language-differs', 'key': [T, src, 'unreadable', type(e).__name__]})
            continue
        eq, info = product_equivalent(ref, lib)
        if not eq:
            vio.append({'scope': T, 'kind': 'language-differs', 'key': [T, src, list(info)],
                        'observed': 'reference %s, library grammar %s' % (ref.accepts(info), lib.accepts(info))})
        else:
            prod_states += info
    # bind the grammar reading to the code: words accepted and serialised by the real element must be in L(M_T)
    al = ref.alphabet
    L = 1
    while L < 5 and sum(len(al) ** k for k in range(L + 2)) <= WORD_BUDGET[tier]:
        L += 1
    for k in range(0, L + 1):
        for w in itertools.product(al, repeat=k):
            n += 1
            st = build(T, [('A', a) for a in w])
            if not all(o.ok for o in st.outcomes):
                continue
            s = serialise(st.el)
            if s[0] != 'ok':
                continue
            tags = child_tags(s[1])
            if not ref.accepts(tags):
                vio.append({'scope': T, 'kind': 'accepts-non-word', 'key': [T, list(w), tags],
                            'trace': [['A', a] for a in w]})
    return vio, n, prod_states, L


def run(tier):
    run_ = core.Run('C03', tier)
    guards = []
    import musicxml.xsd.xsdcomplextype as CT
    import musicxml.xsd.xsdsimpletype as ST
    import musicxml.xsd.xsdattribute as AT
    import musicxml.xsd.xsdindicator as IND
    from musicxml.xsd.xsdtree import XSD_TREE_DICT
    from musicxml.generate_classes import utils as U
    cmp_ = collections.Counter()

    # 1. names
    decl = R.partwise_elements()
    by_class = collections.defaultdict(list)
    for n in decl:
        by_class[impl.class_name_for(n)].append(n)
    for cn, ns in by_class.items():
        cmp_['names'] += 1
        if len(ns) > 1:
            run_.violation(cn, 'name-map', [cn, 'collision', sorted(ns)])
        if cn not in impl.CLASSES:
            run_.violation(cn, 'name-map', [cn, 'class-missing'])
    for cn in impl.CLASSES:
        if cn not in by_class:
            run_.violation(cn, 'name-map', [cn, 'class-without-declaration'])
    # 2. type binding and instance name
    for n in sorted(decl):
        cls = impl.CLASSES.get(impl.class_name_for(n))
        if cls is None:
            continue
        cmp_['bindings'] += 1
        if len(decl[n]) != 1:
            run_.violation(n, 'type-binding', [n, 'declarations-disagree', sorted(map(str, decl[n]))])
            continue
        kind, t = R.element_type(n)
        want = st_class_name(t) if kind == 'simple' else ct_class_name(t)
        got = getattr(cls.TYPE, '__name__', None)
        if got != want:
            run_.violation(n, 'type-binding', [n, want, got])
        o = impl.call(lambda: cls(impl.valid_value(cls), xsd_check=False).name)
        if not o.ok or o.value != n:
            run_.violation(n, 'name-map', [n, 'instance-name', o.value if o.ok else o.exc])
        else:
            x = cls.XSD_TREE.xml_element_tree_element
            if x.get('name') != n or (x.get('type') or None) != (t if not (kind == 'complex' and t in ANON_CLASS and t not in R.CTYPES) else None):
                run_.violation(n, 'type-binding', [n, 'declaration-found-by-class', x.get('name'), x.get('type')])
    # 3. languages
    nwords = 0
    prod = 0
    per_type = {}
    for (vio, n, ps, L), T in zip(core.pmap(work_lang, [(T, tier) for T in impl.TYPES]), impl.TYPES):
        run_.add_violations(vio)
        nwords += n
        prod += ps
        per_type[T] = {'L': L, 'words': n, 'product_states': ps}
    # 4. attribute tables, simple content
    all_ct = sorted(R.CTYPES) + [a for a in ANON_CLASS if a not in R.CTYPES]
    for T in all_ct:
        cls = getattr(CT, ct_class_name(T), None)
        cmp_['complex_types'] += 1
        if cls is None:
            run_.violation(T, 'attr-table', [T, 'complex-type-class-missing'])
            continue
        ref = [(an, at, req) for (an, at, req) in R.ctype_attrs(T)]
        o = impl.call(cls.get_xsd_attributes)
        lib = []
        if o.ok:
            for a in o.value:
                r = impl.call(lambda: (a.name, getattr(a.type_, '__name__', None), a.is_required))
                lib.append(r.value if r.ok else ('<broken:%s>' % r.exc, None, None))
        else:
            lib = [('<table-raises:%s>' % o.exc, None, None)]
        for i, (an, at, req) in enumerate(ref):
            if at is not None and at.startswith('ref:'):
                want = (an, None, req)       # type of referenced xml:/xlink: attributes is judged by name/required only
            else:
                want = (an, st_class_name(at) if at else None, req)
            got = lib[i] if i < len(lib) else ('<missing>', None, None)
            if at is not None and at.startswith('ref:'):
                got = (got[0], None, got[2])
            if got != want:
                run_.violation(T, 'attr-table', [T, an, list(map(str, want)), list(map(str, got))])
        if len(lib) > len(ref):
            run_.violation(T, 'attr-table', [T, 'extra-attributes', [str(x[0]) for x in lib[len(ref):]]])
        sc = R.simple_content_base(T)
        got = getattr(getattr(cls, '_SIMPLE_CONTENT', None), '__name__', None)
        # the library reaches the simple content through the class hierarchy as well
        if sc:
            ok = got == st_class_name(sc) or any(b.__name__ == st_class_name(sc) for b in cls.__mro__)
            if not ok:
                run_.violation(T, 'simple-content', [T, st_class_name(sc), got])
        elif got is not None and T != 'directive':
            run_.violation(T, 'simple-content', [T, None, got])
    for g in sorted(R.AGROUPS):
        cls = getattr(AT, 'XSDAttributeGroup' + R.camel(g), None)
        cmp_['attribute_groups'] += 1
        if cls is None:
            run_.violation(g, 'attr-table', [g, 'attribute-group-class-missing'])
            continue
        ref = list(R.agroup_attrs(g))
        o = impl.call(cls.get_xsd_attributes)
        lib = []
        if o.ok:
            for a in o.value:
                r = impl.call(lambda: (a.name, a.is_required))
                lib.append(r.value if r.ok else ('<broken:%s>' % r.exc, None))
        if [(an, req) for (an, at, req) in ref] != lib:
            run_.violation(g, 'attr-table', ['group:' + g, [x[0] for x in ref], [str(x[0]) for x in lib]])
    # model groups
    for g in sorted(R.GROUPS):
        cmp_['model_groups'] += 1
        cls = getattr(IND, 'XSDGroup' + R.camel(g), None)
        if cls is None:
            run_.violation(g, 'schema-copy', ['group-class-missing', g])
            continue
        x = cls().xsd_tree.xml_element_tree_element
        if infoset(x) != infoset(R.GROUPS[g]):
            run_.violation(g, 'schema-copy', ['group-differs', g])
    # 5. simple types: the declaration each class reads is the pinned one, and its base class is the declared base
    for n in sorted(R.STYPES):
        cmp_['simple_types'] += 1
        cls = getattr(ST, st_class_name(n), None)
        if cls is None:
            run_.violation(n, 'simple-type-facets', [n, 'class-missing'])
            continue
        f = R.st_facets(n)
        if f['union']:
            # hand-written union types: members are realised through _UNION / the base class and _FORCED_PERMITTED
            want = {st_class_name(m) for m in f['union']['members']}
            got = {u.__name__ for u in (getattr(cls, '_UNION', None) or [])} | {b.__name__ for b in cls.__mro__[1:]}
            if not want <= got:
                run_.violation(n, 'simple-type-facets', [n, 'union-members', sorted(want), sorted(got)[:6]])
            lits = sorted(v for i in f['union']['inline'] for v in i['enum'])
            if sorted(getattr(cls, '_FORCED_PERMITTED', []) or []) != lits:
                run_.violation(n, 'simple-type-facets', [n, 'union-literals', lits])
            continue
        x = cls.get_xsd_tree().xml_element_tree_element
        if infoset(x) != infoset(R.STYPES[n]):
            run_.violation(n, 'simple-type-facets', [n, 'declaration-differs'])
        if f['base']:
            want = st_class_name(f['base'])
            if want not in [b.__name__ for b in cls.__mro__[1:]]:
                run_.violation(n, 'simple-type-facets', [n, 'base-class', want, cls.__mro__[1].__name__])
        if f['enum']:
            o = impl.call(lambda: list(cls.get_xsd_tree().get_permitted()))
            if not o.ok or o.value != f['enum']:
                run_.violation(n, 'simple-type-facets', [n, 'enumeration'])
    for b in ('NMTOKEN', 'Name', 'NCName', 'ID', 'IDREF', 'language'):
        cmp_['simple_types'] += 1
        if not hasattr(ST, st_class_name(b)):
            run_.violation(b, 'simple-type-facets', [b, 'class-missing'])
    # 6. schema copy
    lib_path = os.path.join(core.SRC_ROOT, 'musicxml', 'generate_classes', 'musicxml_4_0.xsd')
    cmp_['schema_copy'] += 1
    if open(lib_path, 'rb').read() != open(R.XSD_PATH, 'rb').read():
        run_.violation('schema', 'schema-copy', ['file-bytes-differ'])
    if infoset(U.musicxml_xsd_et_root) != infoset(R.root):
        run_.violation('schema', 'schema-copy', ['loaded-tree-differs'])
    want_keys = {'simpleType': set(R.STYPES) | {'NMTOKEN', 'Name', 'NCName', 'ID', 'IDREF', 'language'},
                 'complexType': set(R.CTYPES), 'group': set(R.GROUPS), 'attributeGroup': set(R.AGROUPS)}
    for kind, want in want_keys.items():
        cmp_['tree_dict'] += 1
        got = set(XSD_TREE_DICT[kind])
        if got != want:
            run_.violation('schema', 'schema-copy', ['tree-dict-keys', kind, sorted(want - got)[:5], sorted(got - want)[:5]])
    for n in sorted(decl):
        if len(decl[n]) == 1 and n not in ('score-partwise', 'part', 'measure', 'directive'):
            kind, t = R.element_type(n)
            x = XSD_TREE_DICT['element'].get(n)
            cmp_['tree_dict'] += 1
            if x is None or x.xml_element_tree_element.get('type') != t:
                run_.violation(n, 'schema-copy', ['tree-dict-element', n, t])
    if len(impl.TYPES) != 94 or cmp_['bindings'] < 400:
        guards.append('too few comparisons')
    total = sum(cmp_.values()) + nwords
    cov = {'states': prod, 'transitions': total, 'traces_validated_against_impl': nwords,
           'product_automaton_states': prod, 'comparisons': dict(cmp_), 'per_type': per_type,
           'samples': [{'type': 'note', 'claim': 'L(template)=L(reference) by product BFS'},
                       {'element': 'words', 'claim': 'TYPE is XSDComplexTypeFormattedTextId'}],
           'exhaustive': True,
           'rule': 'complete enumeration of names/bindings/tables; language equivalence by product-automaton BFS; all '
                   'words up to per-type length (budget %d) replayed on the real element' % WORD_BUDGET[tier]}
    run_.assumptions += ['reference reading of the pinned schema (cross-checked with the JDK validator in setup)']
    return run_.finish(cov, guard_errors=guards)


def replay(rec):
    if rec['kind'] in ('language-differs', 'accepts-non-word'):
        vio, n, ps, L = work_lang((rec['scope'], 'quick'))
        hit = [v for v in vio if v['kind'] == rec['kind']]
        return {'reproduced': bool(hit), 'observed': hit[:2]}
    return {'reproduced': None, 'note': 'table comparison: re-run ./check C03 quick'}
