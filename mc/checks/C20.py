"""C20 - independent documents can be built concurrently from several threads.

Stateless schedule enumeration with pre-emption bound 1 at line granularity: thread A builds, validates and
serialises a small tree of class X (its first use in the process); for EVERY library line event i of A one execution
pre-empts A before that line, lets thread B (class Y) run to completion in the gap, and resumes A.  Roles are also
swapped.  Every execution runs in a child forked from a parent that has imported the package and used nothing, so
the lazily filled class-level tables start empty each time.  Oracle: each thread's result (serialisation text or
exception) equals its result when run alone in such a child."""
import os
import sys
import json
import threading
import collections

import time
import tempfile

from mc import core, impl
from mc.ref import xsd as R
# imported here, in the pristine parent (importing defines functions and uses nothing): a thread that is pre-empted while it
# holds the import lock of a module the other thread needs would deadlock the two-thread harness, which is not the
# library's doing
from musicxml.parser.parser import parse_musicxml  # noqa: E402

SCENARIOS = {
    'quick': [('note', 'note'), ('words', 'rehearsal'), ('duration', 'duration'), ('type', 'swing-type'),
              ('measure', 'part'), ('credit-words', 'words'), ('lyric', 'text'), ('pitch', 'rest'),
              ('direction', 'sound'), ('ending', 'measure-numbering'), ('articulations', 'articulations'),
              ('dynamics', 'technical'), ('@parse-decimal', '@parse-integral')],
}


CHILD_TIMEOUT = 120
OCC = 2   # quick: pre-empt at the first OCC executions of every distinct library line (thorough: every line event)


def all_scenarios(tier):
    if tier == 'quick':
        return SCENARIOS['quick']
    out = list(SCENARIOS['quick'])
    # one scenario per distinct declared type: the representative element with itself and with its successor
    by_type = {}
    for n in sorted(R.partwise_elements()):
        if len(R.partwise_elements()[n]) == 1:
            by_type.setdefault(R.element_type(n), n)
    names = [by_type[k] for k in sorted(by_type, key=str)]
    for a, b in zip(names, names[1:] + names[:1]):
        out.append((a, a))
        out.append((a, b))
    return out


# ---------------------------------------------------------------- recipes (computed in a throw-away child)

def recipe(name, depth=0):
    """plain-data recipe of a minimal complete element + one optional attribute"""
    cls = impl.class_for(name)
    kind, t = R.element_type(name)
    val = impl.valid_value(cls)
    attrs = dict(impl.req_attrs(cls, t)) if kind == 'complex' else {}
    opt = []
    if kind == 'complex':
        for (an, at, req) in R.ctype_attrs(t):
            if req or ':' in an or an == 'name' or not at:
                continue
            # numeric spellings first (union types such as font-size take numbers and strings)
            cands = [v for v in impl._from_sample(at) if not isinstance(v, str)] + [v for v in impl._from_sample(at) if isinstance(v, str)]
            for v in cands:
                if impl.call(lambda: cls(val, xsd_check=False, **{an.replace('-', '_'): v})).ok:
                    opt.append((an.replace('-', '_'), v))
                    break
            if len(opt) >= (12 if depth == 0 else 1):
                break
    kids = []
    if kind == 'complex' and R.content_model(t) is not None and depth < 8:
        A = impl.nfa(t)
        w = A.shortest_accepted()
        if depth == 0 and len(w) < 2:
            # types that are complete when (nearly) empty: take the first accepted two-child word, so that repeated
            # particles (duplication of the container) are exercised as well
            two = [x for x in A.words(2) if len(x) == 2]
            if two:
                w = two[0]
        for a in w:
            kids.append(recipe(a, depth + 1))
    return {'name': name, 'value': val, 'attrs': attrs, 'opt': opt, 'kids': kids}


def build_from(rec):
    import musicxml.xmlelement.xmlelement as X
    cls = getattr(X, impl.class_name_for(rec['name']))
    el = cls(rec['value'], **rec['attrs'])
    for (an, v) in rec['opt']:
        setattr(el, an, v)
    for k in rec['kids']:
        el.add_child(build_from(k))
    return el


def _outcome(fn):
    try:
        return ['ok', fn()]
    except Exception as e:  # noqa
        return ['exc', type(e).__name__, str(e)[:200]]


def body_parse(rec):
    """a thread that builds its tree with parse_musicxml from its own file, then serialises it"""
    def f():
        fd, path = tempfile.mkstemp(suffix='.xml', dir=os.environ.get('VERIF_RUN_DIR'))
        try:
            with os.fdopen(fd, 'wb') as fh:
                fh.write(rec['parse'].encode('utf-8'))
            return parse_musicxml(path).to_string()
        finally:
            os.unlink(path)
    return _outcome(f)


def body(rec):
    if 'parse' in rec:
        return body_parse(rec)
    return _body(rec)


def _body(rec):
    """what one thread does with its own objects: build + validate + serialise a complete tree; then the two error
    paths a user meets - serialising an element that lacks its required attributes, and a mistyped attribute"""
    first = _outcome(lambda: build_from(rec).to_string())

    def incomplete():
        r2 = dict(rec)
        r2['attrs'] = {}
        return build_from(r2).to_string()

    def mistyped():
        import musicxml.xmlelement.xmlelement as X
        cls = getattr(X, impl.class_name_for(rec['name']))
        el = cls(rec['value'], xsd_check=False)
        el.no_such_attribute_xyz = 1
        return 'accepted'
    second = _outcome(incomplete) if rec['attrs'] else None
    third = _outcome(mistyped)
    if first[0] != 'ok':
        return first
    return ['ok', first[1], second, third]


def in_child(fn, *args):
    """run fn(*args) in a forked child, return its JSON-able result"""
    r, w = os.pipe()
    pid = os.fork()
    if pid == 0:
        try:
            os.close(r)
            out = fn(*args)
            data = json.dumps(out).encode('utf-8')
        except BaseException as e:  # noqa
            data = json.dumps({'child_error': type(e).__name__ + ': ' + str(e)[:200]}).encode('utf-8')
        try:
            with os.fdopen(w, 'wb') as fh:
                fh.write(data)
        finally:
            os._exit(0)
    os.close(w)
    # a schedule that deadlocks the two threads must not hang the check: the child gets CHILD_TIMEOUT seconds
    import select
    import signal
    chunks = []
    deadline = time.time() + CHILD_TIMEOUT
    with os.fdopen(r, 'rb') as fh:
        while True:
            left = deadline - time.time()
            if left <= 0 or not select.select([fh], [], [], left)[0]:
                os.kill(pid, signal.SIGKILL)
                os.waitpid(pid, 0)
                return {'child_error': 'timeout: no result after %d s (deadlock between the two threads?)' % CHILD_TIMEOUT}
            b = os.read(fh.fileno(), 1 << 16)
            if not b:
                break
            chunks.append(b)
    data = b''.join(chunks)
    os.waitpid(pid, 0)
    return json.loads(data.decode('utf-8')) if data else {'child_error': 'no data'}


LIB_PREFIX = None


def scheduled(recA, recB, i):
    """thread A traced; before its i-th library line event thread B runs to completion (i None: A alone, counting)"""
    prefix = os.path.join(os.path.realpath(core.SRC_ROOT), 'musicxml') + os.sep
    res = {}
    count = [0]
    where = [None]
    trail = [] if i is None else None

    def run_b():
        res['B'] = body(recB)

    def local(frame, event, arg):
        if event == 'line':
            count[0] += 1
            if trail is not None:
                trail.append((frame.f_code.co_filename, frame.f_lineno))
            if i is not None and count[0] == i:
                where[0] = '%s:%d %s' % (os.path.basename(frame.f_code.co_filename), frame.f_lineno, frame.f_code.co_name)
                sys.settrace(None)
                tb = threading.Thread(target=run_b)
                tb.start()
                tb.join()
                sys.settrace(glob)
        return local

    def glob(frame, event, arg):
        if frame.f_code.co_filename.startswith(prefix):
            return local
        return None

    def run_a():
        sys.settrace(glob)
        try:
            res['A'] = body(recA)
        finally:
            sys.settrace(None)

    ta = threading.Thread(target=run_a)
    ta.start()
    ta.join()
    first = None
    if trail is not None:
        # indices (1-based) of the first OCC occurrences of every distinct source line
        seen = collections.Counter()
        first = []
        for n, site in enumerate(trail, 1):
            seen[site] += 1
            if seen[site] <= OCC:
                first.append(n)
    return {'A': res.get('A'), 'B': res.get('B'), 'lines': count[0], 'where': where[0], 'first': first}


def solo(rec):
    return body(rec)


def work(arg):
    """one chunk of pre-emption indices of one scenario/role; forks one child per schedule"""
    sid, recA, recB, soloA, soloB, idx = arg
    vio = []
    n = 0
    sites = collections.Counter()
    for i in idx:
        r = in_child(scheduled, recA, recB, i)
        n += 1
        if 'child_error' in r:
            vio.append({'scope': sid, 'kind': 'thread-result-differs', 'key': [sid, 'harness', r['child_error'][:60]], 'schedule': i})
            continue
        for role, want in (('A', soloA), ('B', soloB)):
            if r[role] != want:
                got = r[role]
                cls = (got[1] if got and got[0] == 'exc' else 'different-output') if got else 'no-result'
                if got and got[0] == 'ok' and want and want[0] == 'ok':
                    which = [n for n, (x, y) in enumerate(zip(got[1:], want[1:])) if x != y]
                    cls = 'different-output:' + ','.join(['tree', 'missing-required-attribute', 'mistyped-attribute'][n] for n in which)
                vio.append({'scope': sid, 'kind': 'thread-result-differs', 'key': [sid, role, cls],
                            'schedule': i, 'preempted_at': r['where'], 'observed': got if not got or got[0] == 'exc' else [str(x)[:160] for x in got[1:]]})
                sites[r['where']] += 1
    return vio, n, dict(sites)


def run(tier):
    run_ = core.Run('C20', tier)
    guards = []
    scen = all_scenarios(tier)
    names = sorted({n for s in scen for n in s})
    # recipes in a throw-away child: the parent stays pristine (it has imported the library and used nothing)
    recs = in_child(lambda: {n: recipe(n) for n in names if not n.startswith('@')})
    if 'child_error' in recs:
        raise core.InternalError('recipe child failed: ' + recs['child_error'])
    # parser threads: the same small score with every decimal-typed number spelled fractional / integral
    from mc.checks import C13
    pv = in_child(lambda: {'@parse-decimal': C13.spelling_variant(C13.PARSER_DOC, 'decimal'),
                           '@parse-integral': C13.spelling_variant(C13.PARSER_DOC, 'integral')})
    for k, v in pv.items():
        recs[k] = {'parse': v}
    tasks = []
    per = {}
    for (x, y) in scen:
        for (a, b) in ((x, y), (y, x)) if x != y else ((x, y),):
            sid = '%s|%s' % (a, b)
            sa = in_child(solo, recs[a])
            sb = in_child(solo, recs[b])
            cnt = in_child(scheduled, recs[a], recs[b], None)
            if cnt.get('A') != sa:
                raise core.InternalError('tracing changes the solo result of %s' % a)
            N = cnt['lines']
            per[sid] = {'lines': N, 'soloA': sa[0], 'soloB': sb[0]}
            # thorough: every line event for the hand-picked scenarios, first-occurrence points for the per-type ones
            full = tier == 'thorough' and ((x, y) in SCENARIOS['quick']) and not x.startswith('@')
            idx = list(range(1, N + 1)) if full else cnt['first']
            per[sid]['schedules'] = len(idx)
            step = 100
            for k in range(0, len(idx), step):
                tasks.append((sid, recs[a], recs[b], sa, sb, idx[k:k + step]))
    total = 0
    sites = collections.Counter()
    for vio, n, st in core.pmap(work, tasks):
        total += n
        for v in vio:
            run_.violation(v['scope'], v['kind'], v['key'], schedule=v.get('schedule'), preempted_at=v.get('preempted_at'),
                           observed=v.get('observed'))
        for k, c in st.items():
            sites[k] += c
    if total < 1000:
        guards.append('fewer than 1000 schedules')
    cov = {'states': total, 'transitions': total, 'traces_validated_against_impl': total, 'schedules': total,
           'scenarios': per, 'preemption_sites_with_differences': dict(sites.most_common(20)),
           'samples': [{'scenario': 'note|note', 'preempt_before_line_event': 1234}],
           'exhaustive': True,
           'rule': 'one pre-emption of thread A before each of its library line events (quick: before the first %d executions '
                   'of every distinct source line), thread B to completion in the gap, roles swapped; one forked child per '
                   'schedule' % OCC}
    run_.assumptions += ['pre-emption bound 1, line granularity, two threads',
                         'no pre-emption inside a line (a race inside one bytecode sequence of one line is not explored)']
    return run_.finish(cov, guard_errors=guards)


def replay(rec):
    return {'reproduced': None, 'note': 're-run ./check C20 quick; the replay file names scenario, role and one failing schedule index'}
