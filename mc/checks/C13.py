"""C13 - element instances are isolated from one another.

(1) two live instances A and B (same type; and different element classes bound to one complex type) in one
    process: for all pairs of histories of depth <= 2 (thorough 3 for small alphabets) and the merge shapes
    B-before-A, B-inside-A, B-after-A: the object graph reachable from A (generic canonical form) must equal that
    of A driven alone; a difference is confirmed observationally (fingerprint by replay) before it is reported.
(2) no residue in process-wide state: after all of a worker's runs, and under sorted / reversed class order, the
    acceptance verdict of every class for every value of a value alphabet (all enumeration literals + probes; same
    for attributes) and the fingerprint of a fresh instance of every type equal those of a pristine process that
    did nothing else."""
import os
import itertools
import collections
import multiprocessing

from mc import core, impl, explore
from mc.impl import nfa, call
from mc.ref import xsd as R

SIGMA_CAP = {'quick': 3, 'thorough': 4}
DEPTH = {'quick': 2, 'thorough': 2}
PROBES = ['', ' ', 'a', 'yes', 'no', 0, 1, 1.0, 2, 2.0, -1, 1.5, 100, 100.0, 17, '#000000', '2000-01-01', 'C', 'quarter', 'also-bottom', 'up',
          'start', 'normal', 'accSharp', ('wrongly', 'typed')]   # the tuple: a value of the wrong Python type (TypeError text)


def ops_small(T, tier):
    sig = explore.reduced_alphabet(T)[:SIGMA_CAP[tier]]
    return [('A', a) for a in sig] + [('R', 0), ('S', True), ('Ax', 'foreign', explore.pick_foreign(T))]


def run_merged(TA, nameA, TB, nameB, hA, hB, shape):
    """drive live A and B in one process; returns State of A.  shape 'toggled': B is constructed with xsd_check=False
    and switched to checked through the public setter before its history runs (B before A)"""
    if shape == 'toggled':
        # B first (constructed unchecked, switched on), its whole history, and only then A is CONSTRUCTED
        b = impl.State(impl.fresh(TB, check=False, el_name=nameB))
        b.el.xsd_check = True
        for o in hB:
            impl.apply(b, o)
        a = impl.State(impl.fresh(TA, check=False, el_name=nameA))
        a.el.xsd_check = True
        for o in hA:
            impl.apply(a, o)
        return a
    a = impl.State(impl.fresh(TA, el_name=nameA))
    b = impl.State(impl.fresh(TB, el_name=nameB))
    if shape == 'before':
        seq = [('b', o) for o in hB] + [('a', o) for o in hA]
    elif shape == 'after':
        seq = [('a', o) for o in hA] + [('b', o) for o in hB]
    else:
        seq = [('a', hA[0])] + [('b', o) for o in hB] + [('a', o) for o in hA[1:]]
    for who, op in seq:
        impl.apply(a if who == 'a' else b, op)
    return a


def template_digest():
    """structure and attached-element counts of the per-type container templates (module-level shared objects every
    new element copies).  Caches and flags are ignored: only a structural change or an attached element counts."""
    import musicxml.xmlelement.containers as C

    def rec(n):
        c = n.content
        att = len(c.xml_elements) if hasattr(c, 'xml_elements') else 0
        return (type(c).__name__, getattr(c, 'name', None), n.min_occurrences, n.max_occurrences, att,
                tuple(rec(k) for k in n.get_children()))
    return hash(tuple((k, rec(v)) for k, v in sorted(C.containers.items())))


def work_pairs(arg):
    TA, nameA, TB, nameB, tier = arg
    opsA = ops_small(TA, tier)
    opsB = ops_small(TB, tier)
    d = DEPTH[tier]
    vio = []
    oc = collections.Counter()
    sigma = explore.reduced_alphabet(TA)
    solo = {}
    solo_t = {}
    td0 = template_digest()

    def polluted(where):
        if template_digest() != td0:
            vio.append({'scope': TA, 'kind': 'cross-instance-effect',
                        'key': [nameA, nameB, 'shared-container-template-changed', where]})
            oc['aborted_after_first_violation'] += 1
            return True
        return False
    for hA in itertools.product(opsA, repeat=d):
        sa = impl.State(impl.fresh(TA, el_name=nameA))
        for op in hA:
            impl.apply(sa, op)
        solo[hA] = impl.G(sa)
        st_ = impl.State(impl.fresh(TA, check=False, el_name=nameA))
        st_.el.xsd_check = True
        for op in hA:
            impl.apply(st_, op)
        solo_t[hA] = impl.G(st_)
        if polluted('solo'):
            return vio, dict(oc)
    for hA in itertools.product(opsA, repeat=d):
        if polluted('interleavings'):
            return vio, dict(oc)
        for hB in itertools.product(opsB, repeat=d):
            for shape in ('before', 'inside', 'after', 'toggled'):
                oc['interleavings'] += 1
                try:
                    a = run_merged(TA, nameA, TB, nameB, hA, hB, shape)
                except Exception as e:
                    vio.append({'scope': TA, 'kind': 'cross-instance-effect',
                                'key': [nameA, [list(o) for o in hA], nameB, [list(o) for o in hB], shape,
                                        'construction-raises:' + type(e).__name__]})
                    oc['aborted_after_first_violation'] += 1
                    return vio, dict(oc)
                if impl.G(a) == (solo_t if shape == 'toggled' else solo)[hA]:
                    continue
                oc['graph_differs'] += 1
                # confirm observationally: snapshot + acceptance of every next symbol, by replaying the merged run
                def obs(merged):
                    out = []
                    for x in [None] + list(sigma):
                        st = run_merged(TA, nameA, TB, nameB, hA, hB, shape) if merged else None
                        if st is None:
                            st = impl.State(impl.fresh(TA, check=(shape != 'toggled'), el_name=nameA))
                            if shape == 'toggled':
                                st.el.xsd_check = True
                            for op in hA:
                                impl.apply(st, op)
                        if x is not None:
                            o = impl.apply(st, ('A', x))
                            out.append((x, o.brief(), impl.phi0(st)))
                        else:
                            out.append(impl.phi0(st))
                    return out
                if obs(True) != obs(False):
                    vio.append({'scope': TA, 'kind': 'cross-instance-effect',
                                'key': [nameA, [list(o) for o in hA], nameB, [list(o) for o in hB], shape]})
                    # process-wide state is now in doubt: everything this worker would explore afterwards is
                    # meaningless (and may degrade without bound), so the worker stops here
                    oc['aborted_after_first_violation'] += 1
                    return vio, dict(oc)
                else:
                    oc['graph_differs_not_observable'] += 1
    return vio, dict(oc)


# ---------------------------------------------------------------- part (2)

def value_alphabet():
    lits = sorted({v for n in R.STYPES for v in R.st_facets(n)['enum']})
    return lits + [p for p in PROBES if p not in lits]


def related_values(at):
    """values offered to an attribute of type `at`: its own enumeration, enumerations sharing a literal, probes"""
    own = set(R.st_facets(at)['enum']) if (at and not at.startswith('xs:') and at in R.STYPES) else set()
    vals = set(own)
    if own:
        for n in R.STYPES:
            e = set(R.st_facets(n)['enum'])
            if e & own:
                vals |= e
    return sorted(vals) + PROBES


_derived = {}


def derived_types(t):
    if not _derived:
        for n, ct in R.CTYPES.items():
            for c in ct:
                if c.tag == R.XS + 'complexContent':
                    _derived.setdefault(c[0].get('base'), []).append(n)
    return _derived.get(t, [])


def _why(o):
    """the text of a rejection is observable behaviour too (a class-level list that grows with every validation shows only
    there); addresses are masked, the text is capped"""
    import re
    return re.sub(r'0x[0-9a-fA-F]+', '0x', o.exc_msg or '')[:160]


def _emit(el):
    """the text an accepted value is written as (unchecked serialisation): part of the verdict, so that a process-wide
    memo of formatted values (4 and 4.0 sharing one entry) is an observable residue"""
    o = call(el.to_string)
    return o.value if o.ok else 'exc:' + o.exc


def verdict_table(name):
    """acceptance verdicts of one class: text values and attribute values (exception class, or 'ok' + the text the
    value is serialised as).  The probe order alternates between classes (numerically equal ints and floats are met in
    both orders across a multi-class run), so an order-dependent residue shows against the pristine per-class run."""
    cls = impl.class_for(name)
    out = []
    flip = sum(map(ord, name)) % 2 == 1
    alpha = value_alphabet()
    if flip:
        alpha = alpha[::-1]
    for v in alpha:
        o = call(lambda: cls(v, xsd_check=False))
        out.append(('text', repr(v), o.brief(), _emit(o.value) if o.ok else _why(o)))
    kind, t = R.element_type(name)
    if kind == 'complex':
        try:
            val = impl.valid_value(cls)
        except RuntimeError:
            return out
        own = [(an, at) for (an, at, req) in R.ctype_attrs(t)]
        # also the attributes that types EXTENDING this type add (a polluted shared table would make them acceptable)
        extra = []
        for d in derived_types(t):
            for (an, at, req) in R.ctype_attrs(d):
                if an not in [x[0] for x in own] and an not in [x[0] for x in extra]:
                    extra.append((an, at))
        for (an, at) in own + extra:
            if ':' in an:
                continue
            rv = related_values(at)
            for v in (rv[::-1] if flip else rv):
                o = call(lambda: cls(val, xsd_check=False, **{an.replace('-', '_'): v}))
                out.append((an, repr(v), o.brief(), _emit(o.value) if o.ok else _why(o)))
    return out


def fresh_table():
    out = {}
    for T in impl.TYPES:
        out[T] = repr(impl.phi(T, [], 1, explore.reduced_alphabet(T)))
    return out


def pristine_class(name):
    return name, verdict_table(name)


def pristine_fresh(_):
    return fresh_table()


def ordered_tables(order):
    names = sorted(R.partwise_elements())
    if order == 'reverse':
        names = names[::-1]
    tabs = {n: verdict_table(n) for n in names}
    return order, tabs, fresh_table()


def after_workload(arg):
    """a worker that first does structural interleavings for some types, then measures the tables"""
    chunk, tier = arg
    vio = []
    oc = collections.Counter()
    for t in chunk:
        v, o = work_pairs(t + (tier,))
        vio += v
        for k, x in o.items():
            oc[k] += x
        if v:
            return vio, dict(oc), {}, {}
    names = sorted(R.partwise_elements())
    return vio, dict(oc), {n: verdict_table(n) for n in names[::7]}, fresh_table()


PARSER_DOC = """<score-partwise version="4.0"><part-list><score-part id="P1"><part-name>a</part-name></score-part></part-list>
<part id="P1"><measure number="1">
<note><chord/><pitch><step>C</step><octave>4</octave></pitch><duration>1</duration><dot/><dot/><notations><articulations><staccato/><accent/></articulations></notations></note>
<note><chord/><rest/><duration>1</duration><dot/><notations><articulations><staccato/></articulations></notations></note>
</measure><measure number="2"><note><rest/><duration>1</duration><notations><articulations><staccato/></articulations></notations></note></measure></part></score-partwise>"""


def parser_isolation(_):
    """(3) trees returned by parse_musicxml share nothing: parse the same document twice (and a second document); change
    every node of tree 1 in turn (set an optional attribute, else re-assign its value) and require that tree 2 and
    every OTHER node of tree 1 serialise as before"""
    from mc import docs
    vio = []
    n = 0
    rd = docs.run_dir()
    cdir = os.path.join(core.VERIF, 'corpus')
    texts = [('synthetic', PARSER_DOC)] + [(f, open(os.path.join(cdir, f), encoding='utf-8').read()) for f in sorted(os.listdir(cdir))]
    for dname, text in texts:
        p1 = docs.parse_text(text, rd, 'c13a')
        p2 = docs.parse_text(text, rd, 'c13b')
        if not (p1.ok and p2.ok):
            continue
        t1, t2 = p1.value, p2.value

        def walk(e, path=()):
            yield path, e
            for i, c in enumerate(e.get_children(ordered=False)):
                yield from walk(c, path + (i,))
        nodes = list(walk(t1))[:400]
        base2 = t2.to_string()
        for path, node in nodes:
            kind, t = (None, None)
            ts = R.partwise_elements().get(node.name)
            if ts and len(ts) == 1:
                kind, t = R.element_type(node.name)
            same = [(p, x) for p, x in nodes if x is not node and x.name == node.name]
            before = [dict(x.attributes) for p, x in same]
            done = None
            if kind == 'complex':
                for (an, at, req) in R.ctype_attrs(t):
                    if ':' in an or an == 'name' or an in node.attributes:
                        continue
                    for v in impl._from_sample(at):
                        if call(setattr, node, an.replace('-', '_'), v).ok:
                            done = ('attr', an)
                            break
                    if done:
                        break
            if not done:
                continue
            n += 1
            leaked = [list(p) for (p, x), b in zip(same, before) if dict(x.attributes) != b]
            after2 = t2.to_string()
            if after2 != base2:
                vio.append({'scope': 'parser', 'kind': 'cross-instance-effect', 'key': [dname, 'second-parse-changed', node.name, done[1]]})
                base2 = after2
            if leaked:
                vio.append({'scope': 'parser', 'kind': 'cross-instance-effect', 'key': [dname, 'same-tree-node-changed', node.name, done[1]]})
            call(setattr, node, done[1].replace('-', '_'), None)
    return vio, n



def spelling_variant(text, how):
    """the same document with every numeric leaf text / attribute value re-spelled: 'decimal' 2 -> 2.5 where the type
    is decimal-derived (a different, fractional value), 'integral' 2.5 -> 2"""
    import re
    import xml.etree.ElementTree as ET
    from mc import docs
    root = ET.fromstring(text)
    for e in root.iter():
        if len(e) == 0 and e.text and re.fullmatch(r'-?\d+(\.\d+)?', e.text.strip()):
            tt = docs.text_type(e.tag)
            if tt and docs.type_roots(tt) == {'xs:decimal'}:
                e.text = (e.text.strip().split('.')[0] + '.5') if how == 'decimal' else e.text.strip().split('.')[0]
        for k, v in list(e.attrib.items()):
            at = docs.attr_type(e.tag, k)
            if at and docs.type_roots(at) == {'xs:decimal'} and re.fullmatch(r'-?\d+(\.\d+)?', v):
                e.set(k, (v.split('.')[0] + '.5') if how == 'decimal' else v.split('.')[0])
    return ET.tostring(root, encoding='unicode')


def parse_alone(text):
    from mc import docs
    p = docs.parse_text(text, docs.run_dir(), 'c13alone')
    if not p.ok:
        return 'exc:' + p.exc
    o = call(p.value.to_string)
    return o.value if o.ok else 'exc:' + o.exc


def parser_order(_):
    """(3b) what parse_musicxml returns for a document does not depend on what was parsed before it in the process: each
    document is parsed in a pristine child, and in one process after its spelling variants (every decimal-typed number
    fractional / integral) - the serialisations of the returned trees must be identical"""
    vio = []
    cdir = os.path.join(core.VERIF, 'corpus')
    texts = [('synthetic', PARSER_DOC)] + [(f, open(os.path.join(cdir, f), encoding='utf-8').read()) for f in sorted(os.listdir(cdir))]
    ctx = multiprocessing.get_context('fork')
    n = 0
    for dname, text in texts:
        variants = [('original', text), ('decimal', spelling_variant(text, 'decimal')), ('integral', spelling_variant(text, 'integral'))]
        with ctx.Pool(1, maxtasksperchild=1) as pool:
            alone = {k: pool.apply(parse_alone, (t,)) for k, t in variants}
        for order in (('decimal', 'integral', 'original'), ('integral', 'decimal', 'original'), ('original', 'decimal', 'integral')):
            with ctx.Pool(1, maxtasksperchild=1) as pool:
                got = pool.apply(_parse_sequence, ([dict(variants)[k] for k in order],))
            for k, g in zip(order, got):
                n += 1
                if g != alone[k]:
                    vio.append({'scope': 'parser', 'kind': 'fresh-instance-differs',
                                'key': [dname, 'parse-result-depends-on-earlier-parses', list(order), k]})
    return vio, n


def _parse_sequence(texts):
    return [parse_alone(t) for t in texts]


def pair_list():
    out = [(T, impl.REP[T], T, impl.REP[T]) for T in impl.TYPES]
    # different element classes bound to the same element-content complex type
    bytype = collections.defaultdict(list)
    for n in sorted(R.partwise_elements()):
        ts = R.partwise_elements()[n]
        if len(ts) == 1:
            k, t = R.element_type(n)
            if k == 'complex' and R.content_model(t) is not None:
                bytype[t].append(n)
    for t, ns in sorted(bytype.items()):
        if len(ns) > 1:
            out.append((t, ns[0], t, ns[1]))
    # different types sharing a model group: neighbours in the sorted list of types using the same group ref
    users = collections.defaultdict(list)
    for T in impl.TYPES:
        node = R.ct_node(T)
        for g in node.iter(R.XS + 'group'):
            if g.get('ref'):
                users[g.get('ref')].append(T)
    for g, ts in sorted(users.items()):
        ts = sorted(set(ts))
        for x, y in zip(ts, ts[1:]):
            out.append((x, impl.REP[x], y, impl.REP[y]))
    return out


def run(tier):
    run_ = core.Run('C13', tier)
    guards = []
    ctx = multiprocessing.get_context('fork')
    names = sorted(R.partwise_elements())
    # pristine references: one forked child per class (never reused), from a parent that has used nothing
    with ctx.Pool(core.nworkers(), maxtasksperchild=1) as pool:
        pristine = dict(pool.map(pristine_class, names, chunksize=1))
        pf = pool.map(pristine_fresh, [0], chunksize=1)[0]
    r1 = explore.r1_prepare()   # after the pristine references were taken (runs in forked workers)
    pairs = pair_list()
    chunks = [pairs[i::core.nworkers() * 2] for i in range(core.nworkers() * 2)]
    with ctx.Pool(core.nworkers()) as pool:
        orders = pool.map_async(ordered_tables, ['sorted', 'reverse'])
        res = pool.map(after_workload, [(c, tier) for c in chunks if c], chunksize=1)
        orders = orders.get()
    oc = collections.Counter()
    ncmp = 0
    with ctx.Pool(1) as pool:
        pv, pn = pool.map(parser_isolation, [0])[0]
    for v in pv:
        run_.violation(v['scope'], v['kind'], v['key'])
    oc['parser_nodes_mutated'] = pn
    pv, pn = parser_order(0)
    for v in pv:
        run_.violation(v['scope'], v['kind'], v['key'])
    oc['parse_results_compared_with_pristine'] = pn
    for vio, o, tabs, ft in res:
        run_.add_violations(vio)
        for k, v in o.items():
            oc[k] += v
        for n, tab in tabs.items():
            ncmp += len(tab)
            if tab != pristine[n]:
                d = next((a, b) for a, b in zip(tab, pristine[n]) if a != b)
                run_.violation(n, 'fresh-instance-differs', [n, 'after-workload', d[0][0], d[0][1]], observed=[d[0], d[1]])
        for T, v in ft.items():
            ncmp += 1
            if v != pf[T]:
                run_.violation(T, 'fresh-instance-differs', [T, 'fingerprint-after-workload'])
    for order, tabs, ft in orders:
        for n, tab in tabs.items():
            ncmp += len(tab)
            if tab != pristine[n]:
                d = next((a, b) for a, b in zip(tab, pristine[n]) if a != b)
                run_.violation(n, 'fresh-instance-differs', [n, order + '-order', d[0][0], d[0][1]], observed=[d[0], d[1]])
        for T, v in ft.items():
            ncmp += 1
            if v != pf[T]:
                run_.violation(T, 'fresh-instance-differs', [T, 'fingerprint-' + order + '-order'])
    if oc['interleavings'] == 0 or ncmp == 0:
        guards.append('nothing explored')
    distinct = len({repr(v) for v in pristine.values()})
    if distinct < 20:
        guards.append('verdict tables are degenerate')
    run_.assumptions += ['merge shapes before / inside / after (not all interleavings)',
                         'symbol alphabet capped at %d per type for the two-instance product' % SIGMA_CAP[tier],
                         'object-graph equality of A is the primary oracle; differences are confirmed by fingerprint']
    cov = {'states': oc['interleavings'], 'transitions': oc['interleavings'] * 2 * DEPTH[tier] + ncmp,
           'traces_validated_against_impl': oc['interleavings'], 'pairs': len(pairs), 'counters': dict(oc),
           'verdicts_compared_with_pristine': ncmp, 'distinct_verdict_tables': distinct,
           'samples': [{'A': 'pitch', 'hA': [['A', 'step'], ['S', True]], 'B': 'pitch', 'hB': [['A', 'octave'], ['R', 0]],
                        'shape': 'inside'}, {'class': 'swing-type', 'value': 'quarter', 'order': 'reverse'}],
           'exhaustive': True, 'r1_check': r1,
           'rule': 'all pairs of depth-%d histories over capped alphabets x 3 merge shapes for %d instance pairs; verdict '
                   'tables of all 441 classes (text x all enumeration literals + probes; attributes x related values) '
                   'in sorted order, reverse order and after workloads vs one pristine process per class'
                   % (DEPTH[tier], len(pairs))}
    return run_.finish(cov, guard_errors=guards)


def replay(rec):
    if rec['kind'] == 'cross-instance-effect':
        nameA, hA, nameB, hB, shape = rec['key']
        TA = R.element_type(nameA)[1]
        TB = R.element_type(nameB)[1]
        hA = [tuple(o) for o in hA]
        hB = [tuple(o) for o in hB]
        a = run_merged(TA, nameA, TB, nameB, hA, hB, shape)
        sa = impl.State(impl.fresh(TA, el_name=nameA))
        for op in hA:
            impl.apply(sa, op)
        return {'reproduced': impl.G(a) != impl.G(sa), 'note': 'object graphs of A differ between merged and solo run'}
    return {'reproduced': None, 'note': 'order-dependence findings are reproduced by re-running the check (they need '
                                        'a pristine process per class)'}
