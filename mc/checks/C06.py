"""C06 - no child is ever lost, duplicated or orphaned (invariant in every explored state)."""
from mc import structcheck

PROFILES = [('full', 4000, 60000), ('adds', 3000, 40000), ('fwd', 20000, 200000), ('deep', 70000, 600000), ('full!unchecked', 500, 8000), ('toggle', 1500, 1500)]


def run(tier):
    return structcheck.run_struct('C06', tier, 'C06', PROFILES, min_guard={'states_checked': 'no state checked'})


def replay(rec):
    return structcheck.replay_struct(rec, 'C06')
