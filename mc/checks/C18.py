"""C18 - xsd_check=False switches off structural checking and nothing else.

(1) per type: every word (valid or not) up to a length bound over the reduced alphabet plus a foreign element is
    added to an UNCHECKED instance, followed by remove / replace / to_string: nothing raises, output order is
    insertion order; for words of the content-model language the text equals the checked twin's byte for byte.
(2) mixed trees: for every (parent type P, element-content child Q): a checked Q inside an unchecked P still
    rejects a wrong child and still refuses its own to_string() while incomplete; an unchecked Q holding a foreign
    child inside a complete checked P is exempt (P serialises, Q's content is emitted as inserted)."""
import itertools
import collections

from mc import core, impl, explore
from mc.impl import nfa, build, serialise, child_tags
from mc.ref import xsd as R

BUDGET = {'quick': 4000, 'thorough': 40000}
CHUNK = 150


def plan(arg):
    T, tier = arg
    sigma = list(explore.reduced_alphabet(T)) + [explore.pick_foreign(T)]
    L = 1
    while L < 6 and sum(len(sigma) ** k for k in range(L + 2)) <= BUDGET[tier]:
        L += 1
    words = [()]
    for k in range(1, L + 1):
        words += list(itertools.product(sigma, repeat=k))
    return T, L, words


def judge_word(T, w):
    out = []
    hist = [('A', a) for a in w]
    st = build(T, hist, check=False)
    for i, o in enumerate(st.outcomes):
        if not o.ok:
            return [('unchecked-raises', [list(w[:i + 1]), 'add'], {'observed': o.as_json()})]
    s = serialise(st.el)
    if s[0] != 'ok':
        return [('unchecked-raises', [list(w), 'to_string'], {'observed': list(s[:3])})]
    tags = child_tags(s[1])
    if tags != list(w):
        out.append(('unchecked-reorders', [list(w)], {'observed': tags}))
    if nfa(T).accepts(w):
        tw = build(T, hist, check=True)
        if all(o.ok for o in tw.outcomes):
            ts = serialise(tw.el)
            if ts[0] == 'ok' and child_tags(ts[1]) == list(w) and ts[1] != s[1]:
                out.append(('unchecked-differs-from-checked', [list(w)], {'observed': [s[1][:300], ts[1][:300]]}))
    if w:
        # remove the first child, replace the last by a foreign element, serialise again
        f = explore.pick_foreign(T)
        # same-name replacement of the last child, removal of the first, replacement of the (new) last by a foreign one
        ops = [('P', len(w) - 1, w[-1])] + ([('R', 0), ('P', len(w), f)] if len(w) > 1 else []) + [('S', False)]
        for op in ops:
            o = impl.apply(st, op)
            if not o.ok:
                out.append(('unchecked-raises', [list(w), list(op)], {'observed': o.as_json()}))
                return out
        tags = child_tags(st.outcomes[-1].value)
        if tags != st.names():
            out.append(('unchecked-reorders', [list(w), 'after-remove-replace'], {'observed': tags}))
    return out


def work(arg):
    T, words = arg
    vio = []
    oc = collections.Counter()
    for w in words:
        rs = judge_word(T, tuple(w))
        oc['ok' if not rs else rs[0][0]] += 1
        for kind, key, det in rs:
            vio.append({'scope': T, 'kind': kind, 'key': key, 'trace': [['A', a] for a in w], **det})
    return vio, dict(oc)


def word_with(T, q):
    """shortest accepted word of T containing symbol q (BFS over DFA x seen-flag)"""
    A = nfa(T)
    order, trans, acc = A.dfa()
    start = (0, False)
    prev = {start: None}
    dq = collections.deque([start])
    while dq:
        s, f = dq.popleft()
        if f and s in acc:
            w = []
            k = (s, f)
            while prev[k] is not None:
                k, a = prev[k]
                w.append(a)
            return tuple(reversed(w))
        for a in A.alphabet:
            j = trans.get((s, a))
            if j is None:
                continue
            k = (j, f or a == q)
            if k not in prev:
                prev[k] = ((s, f), a)
                dq.append(k)
    return None


def pairs():
    out = []
    for P in impl.TYPES:
        for q in nfa(P).alphabet:
            kind, tq = R.element_type(q) if len(R.partwise_elements()[q]) == 1 else (None, None)
            if kind == 'complex' and R.content_model(tq) is not None:
                out.append((P, q, tq))
    return out


def work_pairs(chunk):
    vio = []
    oc = collections.Counter()
    for (P, q, tq) in chunk:
        f = explore.pick_foreign(tq)
        # (i) checked Q inside unchecked P
        p = impl.fresh(P, check=False)
        qel = impl.child(q, 'checked')
        p.add_child(qel)
        o = impl.call(qel.add_child, impl.child(f))
        oc['nested_checked_probes'] += 1
        if o.ok:
            vio.append({'scope': P, 'kind': 'nested-checked-not-enforced', 'key': [P, q, 'foreign-child-accepted', f]})
        qel2 = impl.child(q, 'checked')
        p2 = impl.fresh(P, check=False)
        p2.add_child(qel2)
        if not nfa(tq).accepts(()):
            o = impl.call(qel2.to_string)
            oc['nested_incomplete_probes'] += 1
            if o.ok:
                vio.append({'scope': P, 'kind': 'nested-checked-not-enforced', 'key': [P, q, 'incomplete-serialised']})
        # (ii) unchecked Q (holding a foreign child) inside a complete checked P
        w = word_with(P, q)
        if w is None:
            continue
        pc = impl.fresh(P, check=True)
        built = True
        qun = None
        for a in w:
            if a == q and qun is None:
                ch = impl.child(q, 'opaque')
                ch.add_child(impl.child(f))
                qun = ch
            else:
                mo = impl.call(impl.minimal, a)
                if not mo.ok:
                    built = False
                    break
                ch = mo.value
            o = impl.call(pc.add_child, ch)
            if not o.ok:
                built = False
                break
        if not built:
            oc['parent_not_buildable'] += 1
            continue
        # only judged when the same parent with a COMPLETE checked q serialises (otherwise a C02 matter)
        ctrl = impl.call(pc.to_string)
        oc['nested_unchecked_probes'] += 1
        if not ctrl.ok:
            # is it the unchecked child's fault?  compare with a parent whose q is minimal & checked
            pc2 = impl.fresh(P, check=True)
            ok2 = True
            for a in w:
                mo = impl.call(impl.minimal, a)
                if not mo.ok or not impl.call(pc2.add_child, mo.value).ok:
                    ok2 = False
                    break
            if ok2 and impl.call(pc2.to_string).ok:
                vio.append({'scope': P, 'kind': 'nested-unchecked-not-exempt', 'key': [P, q, f], 'observed': ctrl.as_json()})
            else:
                oc['parent_unserialisable_anyway'] += 1
            continue
        # (iii) three levels: checked complete P > UNCHECKED q > CHECKED but incomplete r (lacking its required children
        # or attributes; r alone refuses its own to_string): the setting is per element, so r is still checked when the
        # tree is serialised from the root - P.to_string() must refuse as r.to_string() does
        for r in incomplete_children(tq)[:2]:
            def tree():
                pp = impl.fresh(P, check=True)
                rr = impl.class_for(r)(impl.valid_value(impl.class_for(r)), xsd_check=True)
                done = False
                for a in w:
                    if a == q and not done:
                        ch = impl.child(q, 'opaque')
                        ch.add_child(rr)
                        done = True
                    else:
                        ch = impl.minimal(a)
                    pp.add_child(ch)
                return pp, rr
            t = impl.call(tree)
            if not t.ok:
                continue
            pp, rr = t.value
            if impl.call(rr.to_string).ok:
                continue        # r is not incomplete after all
            oc['three_level_probes'] += 1
            o = impl.call(pp.to_string)
            if o.ok:
                vio.append({'scope': P, 'kind': 'nested-checked-not-enforced',
                            'key': [P, q, r, 'root-serialises-incomplete-checked-descendant-below-unchecked'],
                            'observed': o.value[:300]})
    return vio, dict(oc)


_incomplete = {}


def incomplete_children(tq):
    """child symbols of type tq whose own type makes a bare instance incomplete: a required attribute or a content
    model that does not accept the empty sequence"""
    if tq not in _incomplete:
        out = []
        for r in nfa(tq).alphabet:
            if len(R.partwise_elements()[r]) != 1:
                continue
            kind, tr = R.element_type(r)
            if kind != 'complex':
                continue
            req = any(rq and ':' not in an for (an, at, rq) in R.ctype_attrs(tr))
            nonempty = R.content_model(tr) is not None and not nfa(tr).accepts(())
            if req or nonempty:
                out.append(r)
        _incomplete[tq] = out
    return _incomplete[tq]


def work_switched(T):
    """(4) an element switched off through the xsd_check setter behaves like one constructed with xsd_check=False:
    same outcomes and serialisation for additions in any order, xml_* shortcuts (set value, set instance, read, unset)
    and removal"""
    vio = []
    n = 0
    sigma = explore.reduced_alphabet(T)[:4]

    def drive(e):
        log = []
        for a in sigma:
            attr = 'xml_' + a.replace('-', '_')
            cls = impl.class_for(a)
            for step in ('add', 'set-value', 'read', 'set-instance', 'unset', 'add-again'):
                if step in ('add', 'add-again'):
                    o = impl.call(e.add_child, impl.child(a))
                elif step == 'set-value':
                    o = impl.call(setattr, e, attr, impl.valid_value(cls))
                elif step == 'read':
                    o = impl.call(getattr, e, attr)
                elif step == 'set-instance':
                    o = impl.call(setattr, e, attr, impl.child(a))
                else:
                    o = impl.call(setattr, e, attr, None)
                log.append((a, step, o.brief(), type(o.value).__name__ if step == 'read' and o.ok else None))
            log.append(('to_string', serialise(e)[:3]))
        return log
    a = impl.fresh(T, check=False)
    b = impl.fresh(T, check=True)
    b.xsd_check = False
    la, lb = drive(a), drive(b)
    n = len(la)
    if la != lb:
        d = next((x, y) for x, y in zip(la, lb) if x != y)
        vio.append({'scope': T, 'kind': 'unchecked-differs-from-checked', 'key': [T, 'switched-off-vs-constructed', list(map(str, d[0][:2]))],
                    'observed': [str(d[0])[:200], str(d[1])[:200]]})
    if any(x[2].startswith('exc') for x in la if len(x) == 4 and x[1] in ('add', 'add-again', 'set-instance', 'unset', 'read')):
        first = next(x for x in la if len(x) == 4 and x[2].startswith('exc') and x[1] != 'set-value')
        vio.append({'scope': T, 'kind': 'unchecked-raises', 'key': [T, 'shortcut', first[0], first[1]], 'observed': first[2]})
    # (5) the reverse switch: children supplied while checking was off, in an order the checked twin accepts, then
    # xsd_check = True: from then on the element must be indistinguishable from the twin (views, serialisation or
    # missing-children verdict, acceptance of every further child)
    def observe(e):
        out = [tuple(c.name for c in e.get_children(ordered=True)), tuple(c.name for c in e.get_children(ordered=False)),
               serialise(e)[:3]]
        return out
    for k in (1, 2, 3):
        for w in itertools.product(sigma, repeat=k):
            twin = build(T, [('A', a) for a in w])
            if not all(o.ok for o in twin.outcomes):
                continue
            n += 1
            def switched():
                e = impl.fresh(T, check=False)
                for a in w:
                    e.add_child(impl.child(a))
                e.xsd_check = True
                return e
            o = impl.call(switched)
            if not o.ok:
                vio.append({'scope': T, 'kind': 'unchecked-differs-from-checked', 'key': [T, 'switched-on-raises', list(w)],
                            'observed': o.as_json()})
                continue
            got, exp = observe(o.value), observe(twin.el)
            for a in sigma:
                e2 = impl.call(switched).value
                t2 = build(T, [('A', x) for x in w])
                got.append((a, impl.call(e2.add_child, impl.child(a)).brief(), serialise(e2)[:3]))
                exp.append((a, impl.call(t2.el.add_child, impl.child(a)).brief(), serialise(t2.el)[:3]))
            if got != exp:
                d = next((x, y) for x, y in zip(got, exp) if x != y)
                vio.append({'scope': T, 'kind': 'unchecked-differs-from-checked', 'key': [T, 'switched-on-vs-constructed', list(w)],
                            'observed': [str(d[0])[:200], str(d[1])[:200]]})
    return vio, n


def work_leafy(names):
    """classes WITHOUT a content model (simple and empty types): an unchecked instance still accepts any children,
    keeps them in insertion order and serialises them"""
    vio = []
    n = 0
    for name in names:
        cls = impl.class_for(name)
        for w in (('fifths',), ('step', 'fifths'), ('fifths', 'fifths', 'step')):
            n += 1
            def f():
                e = cls(impl.valid_value(cls), xsd_check=False)
                kids = [e.add_child(impl.child(a)) for a in w]
                return e, kids
            o = impl.call(f)
            if not o.ok:
                vio.append({'scope': name, 'kind': 'unchecked-raises', 'key': [name, list(w), 'add'], 'observed': o.as_json()})
                continue
            e, kids = o.value
            s = serialise(e)
            if s[0] != 'ok':
                vio.append({'scope': name, 'kind': 'unchecked-raises', 'key': [name, list(w), 'to_string'], 'observed': list(s[:3])})
                continue
            if child_tags(s[1]) != list(w) or [id(k) for k in e.get_children()] != [id(k) for k in kids]:
                vio.append({'scope': name, 'kind': 'unchecked-reorders', 'key': [name, list(w)], 'observed': child_tags(s[1])})
                continue
            r = impl.call(e.replace_child, kids[0], impl.child('octave'))
            r2 = impl.call(e.remove, kids[-1]) if len(kids) > 1 else None
            if not r.ok or (r2 is not None and not r2.ok):
                vio.append({'scope': name, 'kind': 'unchecked-raises', 'key': [name, list(w), 'replace/remove'],
                            'observed': (r if not r.ok else r2).as_json()})
    return vio, n


def run(tier):
    run_ = core.Run('C18', tier)
    r1 = explore.r1_prepare()
    guards = []
    plans = core.pmap(plan, [(T, tier) for T in impl.TYPES])
    tasks = []
    per_type = {}
    nw = 0
    for T, L, words in plans:
        per_type[T] = {'L': L, 'words': len(words)}
        nw += len(words)
        for i in range(0, len(words), CHUNK):
            tasks.append((T, words[i:i + CHUNK]))
    oc = collections.Counter()
    for vio, o in core.pmap(work, tasks):
        run_.add_violations(vio)
        for k, v in o.items():
            oc[k] += v
    ps = pairs()
    pc = collections.Counter()
    for vio, o in core.pmap(work_pairs, [ps[i:i + 10] for i in range(0, len(ps), 10)]):
        run_.add_violations(vio)
        for k, v in o.items():
            pc[k] += v
    leafy = sorted(n for n in R.partwise_elements() if len(R.partwise_elements()[n]) == 1 and
                   (R.element_type(n)[0] == 'simple' or R.content_model(R.element_type(n)[1]) is None))
    nleafy = 0
    for vio, n in core.pmap(work_leafy, [leafy[i:i + 20] for i in range(0, len(leafy), 20)]):
        run_.add_violations(vio)
        nleafy += n
    nsw = 0
    for vio, n in core.pmap(work_switched, impl.TYPES):
        run_.add_violations(vio)
        nsw += n
    if oc['ok'] == 0:
        guards.append('no word passed in part (1)')
    if pc['nested_checked_probes'] == 0 or pc['nested_unchecked_probes'] == 0 or pc['three_level_probes'] == 0:
        guards.append('no nested probe in part (2)')
    run_.assumptions += ['alphabet reduction R1 plus one foreign element per type', 'opaque leaf children']
    cov = {'states': nw, 'transitions': nw + sum(pc.values()), 'traces_validated_against_impl': nw + len(ps),
           'word_outcomes': dict(oc), 'classes_without_content_model': len(leafy), 'leafy_words': nleafy, 'switched_off_steps': nsw, 'pairs': len(ps), 'pair_counters': dict(pc), 'per_type': per_type,
           'samples': [{'type': 'pitch', 'word': ['octave', 'fifths', 'step']}, {'pair': list(ps[0])}],
           'exhaustive': True, 'r1_check': r1,
           'rule': 'all words up to per-type length (budget %d) over reduced alphabet + foreign element on unchecked '
                   'instances; all (parent, element-content child) pairs x flag assignments' % BUDGET[tier]}
    return run_.finish(cov, guard_errors=guards)


def replay(rec):
    if 'trace' in rec:
        w = tuple(op[1] for op in rec['trace'])
        rs = judge_word(rec['scope'], w)
        return {'reproduced': any(k == rec['kind'] for k, _, _ in rs), 'observed': rs}
    P, q = rec['key'][0], rec['key'][1]
    tq = R.element_type(q)[1]
    vio, oc = work_pairs([(P, q, tq)])
    return {'reproduced': any(v['kind'] == rec['kind'] for v in vio), 'observed': vio}
