"""C04 - the attribute interface of each element is exactly the schema's.

(i)  cross product: every element class x attribute names (all names the schema declares anywhere incl. the
     prefixed ones, undeclared names; quick: the class's own names + a fixed sample of foreign names) x values
     {valid, invalid for the attribute's type, wrong Python type, None} x surfaces {constructor keyword, dot
     assignment, the parser's setattr ladder on the text form}.  Reference dictionary: assignment succeeds iff the
     name is declared for the class's type and the value is valid; nothing is stored on failure.
(ii) histories: per class all assignment sequences of length <= 2 (thorough 3) over <= 4 attributes x {valid,
     other valid, invalid, None}; after every step the stored dictionary equals the model, to_string() refuses iff a
     required attribute is missing, and the serialised attributes are exactly the model under their schema names."""
import itertools
import collections
import xml.etree.ElementTree as ET

from mc import core, impl, jdk
from mc.ref import xsd as R
from mc.ref import values as V

INVALID_CANDS = ['no-such-value-xyz', '', '-1', 'a b c', '0', '1.5']
HIST_DEPTH = {'quick': 2, 'thorough': 3}
NS = {'xml': 'http://www.w3.org/XML/1998/namespace', 'xlink': 'http://www.w3.org/1999/xlink'}


def all_attr_names():
    names = {}
    for T in list(R.CTYPES) + ['score-partwise', 'part', 'measure', 'directive']:
        for (an, at, req) in R.ctype_attrs(T):
            names.setdefault(an, at)
    return names


def docs_roots(at):
    from mc import docs
    return docs.type_roots(at)


def lexical_name(at):
    """element name in lexical.xsd that validates attribute type `at` (None if not expressible)"""
    if at is None or at.startswith('ref:'):
        return None
    return ('xs.' + at[3:]) if at.startswith('xs:') else ('st.' + at)


def py_value(at, lexical):
    """Python value to offer for a lexical form of type `at`: numbers for numeric types, str otherwise"""
    root = at if (at or '').startswith('xs:') else (R.st_root_builtin(at) if at in R.STYPES else None)
    if root in ('xs:integer', 'xs:nonNegativeInteger', 'xs:positiveInteger'):
        try:
            return int(lexical)
        except ValueError:
            return lexical
    if root == 'xs:decimal':
        try:
            return int(lexical) if lexical.lstrip('+-').isdigit() else float(lexical)
        except ValueError:
            return lexical
    if root is None and at in R.STYPES:  # union: number if numeric
        try:
            return int(lexical)
        except ValueError:
            try:
                return float(lexical)
            except ValueError:
                return lexical
    return lexical


def value_table():
    """attribute type -> {'valid': lexical, 'valid2': lexical or None, 'invalid': lexical or None}, via one JDK batch"""
    types = set()
    for T in list(R.CTYPES) + ['score-partwise', 'part', 'measure', 'directive']:
        for (an, at, req) in R.ctype_attrs(T):
            if lexical_name(at):
                types.add(at)
    types = sorted(types)
    docs, idx = [], []
    for at in types:
        cands = [V.sample_value(at)]
        f = R.st_facets(at) if at in R.STYPES else None
        if f and f['enum']:
            cands += f['enum'][:2]
        cands += ['2', 'b', '3.5'] + INVALID_CANDS
        cands_falsy = ['0', '']
        for c in cands + cands_falsy:
            idx.append((at, c))
            docs.append('<%s>%s</%s>' % (lexical_name(at), c.replace('&', '&amp;').replace('<', '&lt;'), lexical_name(at)))
    res = jdk.validate(docs, 'lexical.xsd')
    table = {}
    for (at, c), (ok, codes, msg) in zip(idx, res):
        d = table.setdefault(at, {'valid': None, 'valid2': None, 'invalid': None, 'falsy': None})
        if ok and c in ('0', '') and d['falsy'] is None:
            d['falsy'] = c
        if ok and c == '':
            continue
        if ok:
            if d['valid'] is None:
                d['valid'] = c
            elif d['valid2'] is None and c != d['valid']:
                d['valid2'] = c
        elif d['invalid'] is None and c != '':
            d['invalid'] = c
    return table


def parser_setattr(el, k, v):
    """the parser's ladder (musicxml.parser.parser._et_xml_to_music_xml), replicated on one attribute"""
    try:
        setattr(el, k, v)
    except (TypeError, ValueError):
        try:
            setattr(el, k, int(v))
        except ValueError:
            setattr(el, k, float(v))


def attrs_of_output(text):
    e = ET.fromstring(text)
    out = {}
    for k, v in e.attrib.items():
        if k.startswith('{'):
            uri, local = k[1:].split('}')
            pre = [p for p, u in NS.items() if u == uri]
            k = (pre[0] + ':' + local) if pre else k
        out[k] = v
    return out


def work(arg):
    names, table, allnames, tier = arg
    vio = []
    oc = collections.Counter()
    for name in names:
        cls = impl.class_for(name)
        kind, t = R.element_type(name)
        declared = {an: (at, req) for (an, at, req) in R.ctype_attrs(t)} if kind == 'complex' else {}
        try:
            val = impl.valid_value(cls)
        except RuntimeError:
            continue
        base = impl.req_attrs(cls, t) if kind == 'complex' else {}
        foreign = [n for n in allnames if n not in declared]
        if tier == 'quick':
            foreign = foreign[::12]
        probe_names = list(declared) + foreign + ['bogus-attribute', 'xsd_check_', 'value']
        for an in probe_names:
            at = declared.get(an, (allnames.get(an), None))[0]
            tv = table.get(at, {}) if at else {}
            values = []
            if tv.get('valid') is not None:
                values.append(('valid', py_value(at, tv['valid']), tv['valid']))
            elif an in declared and at and at.startswith('ref:'):
                values.append(('valid', V.sample_value(at), V.sample_value(at)))
            else:
                values.append(('valid', 'a', 'a'))
            if tv.get('invalid') is not None:
                values.append(('invalid', py_value(at, tv['invalid']), tv['invalid']))
            if values and isinstance(values[0][1], int) and not isinstance(values[0][1], bool) and \
                    docs_roots(at) and docs_roots(at) <= {'xs:integer', 'xs:nonNegativeInteger', 'xs:positiveInteger'}:
                # the float twin of a valid integer is not a value of an integer type (offered AFTER the integer)
                values.append(('float-twin', float(values[0][1]), None))
            if tv.get('falsy') is not None and an in declared:
                # a valid value that is falsy in Python (0, 0.0, ''): still a value, must be stored and serialised
                fv = py_value(at, tv['falsy'])
                values.append(('valid', fv, tv['falsy']))
                if isinstance(fv, int) and not isinstance(fv, bool) and 'xs:decimal' in (docs_roots(at) or set()):
                    values.append(('valid', float(fv), None))
            values.append(('wrong-type', ['x'], None))
            values.append(('none', None, None))
            for vclass, pv, lex in values:
                expect_ok = (an in declared and vclass == 'valid') or vclass == 'none'
                for surface in ('keyword', 'dot', 'parser'):
                    if surface == 'parser' and lex is None:
                        continue
                    pyname = an.replace('-', '_')
                    oc['calls'] += 1
                    if surface == 'keyword':
                        o = impl.call(lambda: cls(val, xsd_check=False, **{pyname: pv}))
                        el = o.value if o.ok else None
                    else:
                        el = cls(val, xsd_check=False)
                        if surface == 'dot':
                            o = impl.call(setattr, el, pyname, pv)
                        else:
                            o = impl.call(parser_setattr, el, an, lex)
                    key = [name, an, vclass if not (vclass == 'valid' and (pv == 0 or pv == '')) else 'valid-falsy:%r' % (pv,), surface]
                    if expect_ok and not o.ok:
                        if vclass == 'none' and an not in declared:
                            continue   # removing an undeclared name may be refused or ignored: not stated
                        vio.append({'scope': name, 'kind': 'declared-valid-refused', 'key': key, 'observed': o.as_json()})
                        continue
                    if not expect_ok and o.ok:
                        kind_ = 'undeclared-accepted' if an not in declared else 'invalid-value-accepted'
                        vio.append({'scope': name, 'kind': kind_, 'key': key, 'observed': repr(pv)})
                        continue
                    if not o.ok and el is not None and el.attributes:
                        vio.append({'scope': name, 'kind': 'stored-after-failure', 'key': key, 'observed': dict(el.attributes)})
                        continue
                    if o.ok and vclass == 'valid' and el is not None:
                        if dict(el.attributes) != {an: (pv if surface != 'parser' else el.attributes.get(an))}:
                            vio.append({'scope': name, 'kind': 'serialised-set-differs', 'key': key + ['stored'],
                                        'observed': dict(el.attributes)})
                            continue
                        so = impl.call(el.to_string)
                        if so.ok:
                            got = attrs_of_output(so.value)
                            if set(got) != {an}:
                                vio.append({'scope': name, 'kind': 'serialised-name-wrong', 'key': key, 'observed': sorted(got)})
    return vio, dict(oc)


def work_hist(arg):
    names, table, depth = arg
    vio = []
    oc = collections.Counter()
    for name in names:
        kind, t = R.element_type(name)
        if kind != 'complex':
            continue
        cls = impl.class_for(name)
        attrs = [(an, at, req) for (an, at, req) in R.ctype_attrs(t) if ':' not in an and an != 'name']
        req = [a for a in attrs if a[2]]
        opt = [a for a in attrs if not a[2]]
        chosen = (req + opt)[:4]
        if not chosen:
            continue
        steps = []
        for an, at, rq in chosen:
            tv = table.get(at, {})
            if tv.get('valid') is not None:
                steps.append((an, 'valid', py_value(at, tv['valid'])))
            if tv.get('valid2') is not None:
                steps.append((an, 'valid2', py_value(at, tv['valid2'])))
            if tv.get('invalid') is not None:
                steps.append((an, 'invalid', py_value(at, tv['invalid'])))
            steps.append((an, 'none', None))
        required = {an for an, at, rq in attrs if rq}
        # the element is complete in its children so that only attributes decide the serialisation verdict
        for seq in itertools.chain.from_iterable(itertools.product(steps, repeat=k) for k in range(1, depth + 1)):
            oc['histories'] += 1
            mo = impl.call(impl.minimal, name)
            if not mo.ok:
                break
            el = mo.value
            model = dict(el.attributes)
            bad = None
            for (an, vc, pv) in seq:
                o = impl.call(setattr, el, an.replace('-', '_'), pv)
                if vc in ('valid', 'valid2'):
                    if not o.ok:
                        bad = ('declared-valid-refused', [name, an, vc, 'history'])
                        break
                    model[an] = pv
                elif vc == 'none':
                    if not o.ok:
                        bad = ('none-does-not-remove', [name, an, 'raises'])
                        break
                    model.pop(an, None)
                else:
                    if o.ok:
                        bad = ('invalid-value-accepted', [name, an, vc, 'history'])
                        break
                if dict(el.attributes) != model:
                    bad = ('stored-after-failure' if not o.ok else ('none-does-not-remove' if vc == 'none' else 'serialised-set-differs'),
                           [name, an, vc, 'dictionary'])
                    break
                so = impl.call(el.to_string)
                missing = sorted(required - set(model))
                if missing and so.ok:
                    bad = ('required-not-enforced', [name, missing])
                    break
                if not missing:
                    if not so.ok:
                        if so.exc == 'XSDAttributeRequiredException':
                            bad = ('required-not-enforced', [name, 'refuses-although-complete', an])
                            break
                        oc['unserialisable_for_other_reasons'] += 1
                        continue
                    got = attrs_of_output(so.value)
                    if got != {k: impl_text(v) for k, v in model.items()}:
                        bad = ('serialised-set-differs', [name, an, vc, 'output'])
                        break
            if bad:
                vio.append({'scope': name, 'kind': bad[0], 'key': bad[1], 'history': [[a, c] for a, c, _ in seq]})
    return vio, dict(oc)


def impl_text(v):
    if isinstance(v, float):
        import decimal
        r = repr(v)
        return format(decimal.Decimal(r), 'f') if 'e' in r.lower() else r
    return str(v)


def run(tier):
    run_ = core.Run('C04', tier)
    guards = []
    table = value_table()
    allnames = all_attr_names()
    names = sorted(n for n in R.partwise_elements() if len(R.partwise_elements()[n]) == 1)
    oc = collections.Counter()
    for vio, o in core.pmap(work, [(names[i:i + 6], table, allnames, tier) for i in range(0, len(names), 6)]):
        run_.add_violations(vio)
        for k, v in o.items():
            oc[k] += v
    for vio, o in core.pmap(work_hist, [(names[i:i + 4], table, HIST_DEPTH[tier]) for i in range(0, len(names), 4)]):
        run_.add_violations(vio)
        for k, v in o.items():
            oc[k] += v
    if oc['calls'] == 0 or oc['histories'] == 0:
        guards.append('nothing explored')
    run_.assumptions += ['valid / invalid probe values per attribute type are chosen by the JDK validator',
                         'histories use the first <= 4 plain attributes of each class']
    cov = {'states': oc['histories'], 'transitions': oc['calls'] + oc['histories'],
           'traces_validated_against_impl': oc['calls'] + oc['histories'], 'counters': dict(oc),
           'classes': len(names), 'attribute_names': len(allnames), 'attribute_types_with_probe_values': len(table),
           'samples': [{'class': 'words', 'attribute': 'xml:lang', 'value': 'de', 'surface': 'keyword'},
                       {'class': 'slur', 'history': [['type', 'valid'], ['type', 'none']]}],
           'exhaustive': True,
           'rule': 'classes x attribute names x {valid, invalid, wrong-type, None} x {keyword, dot, parser}; assignment '
                   'histories up to length %d' % HIST_DEPTH[tier]}
    return run_.finish(cov, guard_errors=guards)


def replay(rec):
    table = value_table()
    if 'history' in rec:
        vio, oc = work_hist(([rec['scope']], table, 3))
    else:
        vio, oc = work(([rec['scope']], table, all_attr_names(), 'thorough'))
    hit = [v for v in vio if core.jkey(v['key']) == core.jkey(rec['key']) and v['kind'] == rec['kind']]
    return {'reproduced': bool(hit), 'observed': hit[:1]}
