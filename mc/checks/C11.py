"""C11 - removing a child restores the behaviour the element had without it.

Part 1 (implementation-driven): after every successful removal met in the add/remove exploration the element's
fingerprint is compared with that of a fresh twin holding the remaining children.
Part 2 (model-driven, reaches long documents): every word of the transition-cover and pumped-cycle families of each
content-model DFA (the C02 families; thorough adds the 2-switch cover) that the element accepts in document order,
x every single position removed (remove() and, for the first child of its name, xml_x = None): the result must equal
the twin built from the remaining children - same serialisation / verdict, same views, and the same outcome of
adding a child of the removed name again."""
import collections

from mc import core, impl, structcheck, obscheck  # noqa: F401
from mc.impl import build, nfa
from mc.checks import C02

# the tail profile (thorough only) reaches credit / note / lyric / metronome / part-list five additions deep with forward
# placements and judges every removal there (the trigger depth of seeded change C11-h2)
PROFILES = [('addrem-noS', 6000, 40000), ('xaddrem-noS@fwd', 0, 40000)]
CHUNK = 40


def fp(T, hist, probe):
    st = build(T, hist)
    if not all(o.ok for o in st.outcomes):
        return None
    base = impl.phi0(st)
    st2 = build(T, list(hist) + [('A', probe)])
    return (base, st2.outcomes[-1].brief(), impl.phi0(st2))


def work_words(arg):
    T, words = arg
    vio = []
    oc = collections.Counter()
    for w in words:
        w = tuple(w)
        adds = [('A', a) for a in w]
        st = build(T, adds)
        if not all(o.ok for o in st.outcomes) or [c.name for c in st.el.get_children(ordered=True)] != list(w):
            oc['word_not_kept_by_matcher'] += 1   # C02's subject
            continue
        for i in range(len(w)):
            rest = adds[:i] + adds[i + 1:]
            twin = fp(T, rest, w[i])
            if twin is None:
                oc['twin_not_buildable'] += 1
                continue
            modes = [('R', i)]
            if w.index(w[i]) == i:
                modes.append(('Xs', w[i], 'none'))
            for op in modes:
                oc['removals_judged'] += 1
                got = fp_after(T, adds, op, w[i])
                if got != twin:
                    vio.append({'scope': T, 'kind': 'removal-not-restoring',
                                'key': [list(w), list(op), obscheck.diff_path(twin, got) if got else 'removal-raises'],
                                'trace': [list(x) for x in adds] + [list(op)],
                                'difference': obscheck.first_diff(twin, got) if got else None})
    return vio, dict(oc)


def fp_after(T, adds, op, probe):
    st = build(T, list(adds) + [op])
    if not st.outcomes[-1].ok:
        return None
    base = impl.phi0(st)
    st2 = build(T, list(adds) + [op, ('A', probe)])
    return (base, st2.outcomes[-1].brief(), impl.phi0(st2))


def run(tier):
    def extra(run_, tot, ostats, guards, samples):
        tasks = []
        nwords = 0
        for T in impl.TYPES:
            fam, L, ns, nt = C02.word_families(T, 'quick')
            fams = ('tcover', 'pump') if tier == 'quick' else ('tcover', 'pump', '2switch')
            if tier == 'thorough':
                fam, L, ns, nt = C02.word_families(T, 'thorough')
            ws = [list(w) for w, f in fam.items() if f in fams and 0 < len(w) <= 9]
            nwords += len(ws)
            for i in range(0, len(ws), CHUNK):
                tasks.append((T, ws[i:i + CHUNK]))
        for vio, oc in core.pmap(work_words, tasks):
            run_.add_violations(vio)
            for k, v in oc.items():
                ostats['words:' + k] += v
        tot['transitions'] += ostats['words:removals_judged']
        samples.append({'type': 'credit', 'word': ['credit-words', 'link', 'link', 'credit-words'], 'removed_position': 1})
        if ostats['words:removals_judged'] == 0:
            guards.append('no removal judged in part 2')
    return structcheck.run_struct('C11', tier, 'C11', PROFILES, extra=extra,
                                  min_guard={'removals_judged': 'no removal judged'})


def replay(rec):
    return structcheck.replay_struct(rec, 'C11')
