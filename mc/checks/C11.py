"""C11 - removing a child restores the behaviour the element had without it: after every successful removal the
element's fingerprint is compared with that of a fresh twin holding the remaining children."""
from mc import structcheck, obscheck  # noqa: F401

PROFILES = [('addrem-noS', 6000, 40000)]


def run(tier):
    return structcheck.run_struct('C11', tier, 'C11', PROFILES,
                                  min_guard={'removals_judged': 'no removal judged'})


def replay(rec):
    return structcheck.replay_struct(rec, 'C11')
