"""C10 - a failed operation changes nothing.  Failing calls are the deviation: every failing call met in the
exploration (all arguments of the alphabet plus out-of-alphabet arguments, failing attribute/value assignments,
refused serialisations) is followed by a comparison of the observational fingerprint before and after."""
from mc import structcheck, obscheck  # noqa: F401

PROFILES = [('fail', 1500, 25000)]


def run(tier):
    return structcheck.run_struct('C10', tier, 'C10', PROFILES,
                                  min_guard={'failing_calls': 'no failing call met', 'fail:S': 'no refused serialisation met',
                                             'fail:A': 'no refused addition met'})


def replay(rec):
    return structcheck.replay_struct(rec, 'C10')
