"""Generates /verif/MANIFEST.json from the table below (python3 mc/manifest.py)."""
import os
import json

VERIF = os.path.dirname(os.path.dirname(os.path.abspath(__file__)))

# property id -> (category, technique, level text, level note, design ref)
MC = 'model_checking'
BFS = ('implementation-level explicit-state BFS over operation histories of the real objects (replay-based states, '
       'dedup by object-graph canonical form), per-type transition budget; ')
NOTE = ('Bounded: per-type depth by budget, reduced alphabet R1 (3 representatives per run of interchangeable leaves), '
        'opaque children. Trusts the pinned schema copy and my automaton construction (cross-checked against the JDK '
        'validator in setup and against the library templates by C03). Known genuine defects are matched by exact key.')
CHECKS = {
    'C01': (MC, BFS + 'invariant: every successful to_string emits a word of the reference automaton',
            'All histories of add / forward add / remove / replace / xml_* set+unset / to_string(intelligent_choice on/off) '
            'up to the per-type depth (four profiles incl. forward-focused and deep small-alphabet ones) are executed on fresh real '
            'elements for all 94 types; every successful serialisation is parsed and its child sequence must be accepted by the '
            'reference content-model automaton. Part 2: nested documents - every (parent type, element-content child) pair x all '
            'histories of depth 2/3 on the checked nested child (and serialise / remove / serialise), both nodes judged. Part 3: every complete '
            'document of a model-driven enumeration is validated by the JDK (content-model errors at any depth).', NOTE, '4 C01'),
    'C02': (MC, 'model-driven: all traces of each content-model DFA up to a bound replayed on the real element',
            'Every accepted word (up to a per-type length bound), a transition cover and all pumped simple cycles of the '
            'reference DFA of each of the 94 content models are replayed against the real element; acceptance, final '
            'check and emitted order are compared with the word. Exhaustive within the stated word bounds.',
            'Trusts the pinned schema copy, my Glushkov construction (cross-checked against the JDK validator in setup '
            'and against the library templates by C03); children are opaque instances.', '4 C02'),
    'C03': (MC, 'complete finite comparison of names / bindings / attribute tables / simple types with the reference; '
                'content-model language equivalence by BFS of the product automaton; words <= 3 replayed on the real element',
            'Each sub-claim is a finite enumeration completed in full; language equivalence of the library templates (and of '
            'a fresh instance\'s container) with the schema is decided on automata, not sampled.',
            'Trusts the reference reading of the pinned schema. Union-type classes are compared by members, not text.', '4 C03'),
    'C04': (MC, 'complete cross product classes x attribute names x value classes x surfaces against a reference dictionary; '
                'assignment histories up to depth 2/3',
            'Every element class, every attribute name (own + foreign + undeclared), valid/invalid/wrong-type/None values chosen by the '
            'JDK validator, through constructor keyword, dot assignment and the parser ladder; then all short set/overwrite/remove '
            'histories with serialisation after each step.', 'Value classes are one valid / one invalid value per attribute type; the '
            'JDK validator decides validity.', '4 C04'),
    'C05': (MC, 'complete cross product simple types x value alphabet x entry points, every verdict from the JDK schema validator',
            'All 145+14 simple types against all enumeration literals, numeric boundary probes, strings enumerated from each pattern\'s '
            'syntax tree (with near misses), whitespace variants and Python numbers/objects, through the type class, element '
            'constructor, value_ assignment and an attribute host.', 'Says nothing outside the value alphabet. JDK Xerces is the lexical oracle.',
            '4 C05'),
    'C06': (MC, BFS + 'invariant on views / parents / serialised multiset in every reached state', 'Same exploration as C01 plus a forward-focused profile (multi-leaf symbols and choice heads, deeper) and an unchecked-element profile; in every '
            'reached state (including after failed calls) both child views must equal the reference list (identity-wise), parents must be '
            'right, removed children orphaned, and the output must contain each child once. A toggle profile switches xsd_check off and on '
            'through the public setter between operations.', NOTE, '4 C06, 12.1'),
    'C07': (MC, BFS + 'oracle: exhaustive completion search on the reference automaton after every successful addition',
            'Every successful add / forward add / dot set reached by the exploration (incl. a deeper forward-focused profile) must leave a multiset of children that some '
            'schema-valid word can still contain (search over NFA state sets x remaining multiset, exhaustive). Thorough adds tail profiles: '
            'every state reachable by successful additions alone (5-7 deep) gets every operation once.', NOTE, '4 C07, 12.1'),
    'C08': (MC, 'model-driven: documents enumerated from the reference model per class (values, attributes, words, embeddings) '
                'built through the API, written, re-parsed and compared as typed infosets; second round trip byte-compared',
            'Every class with every accepted value shape, every attribute with representative values, every content-model word up to '
            'length 2/3 and every parent embedding is round-tripped through write/parse_musicxml.',
            'Documents the matcher refuses are skipped and counted. Typed comparison uses the reference schema.', '4 C08'),
    'C09': (MC, 'model-driven: raw XML documents generated from the reference grammar (independently of the library), pre-validated by '
                'the JDK validator, parsed by the library; 8 mutation operators for the no-silent-loss half',
            'Per declaration: minimal document, words up to length 2/3, every attribute incl. xml:/xlink: forms, numeric spellings, '
            'pretty-printed variants, pinned real-world files; valid input must be read back as the same typed infoset, mutated input '
            'must raise or keep every item. The transition-cover and pumped-cycle words of each content-model DFA (length <= 9) are generated '
            'as documents too; the key of an altered document contains the first difference.', 'Mutations at the root and its children only. JDK decides validity of generated inputs.', '4 C09, 12.1'),
    'C17': ('fault_enumeration', 'fault-point enumeration: every node failing its check and an exception injected at every k-th call of the '
            'functions write() passes through, x 3 destination states; 4 default-encoding configurations in subprocesses',
            'Every way the final check can fail on a complete score and every injected fault index is executed against an absent, empty '
            'and pre-filled destination; the destination bytes must be unchanged. Encoding independence is compared across UTF-8, the '
            'real C locale (ASCII stdout/stderr included) and emulated Latin-1/cp1252 defaults, on a document with padded non-ASCII values; '
            'bytes written to stdout/stderr are part of the compared result.', 'Latin-1/cp1252 emulated by wrapping open() (locales not installed).', '4 C17, 12.1'),
    'C20': (MC, 'stateless schedule enumeration under a sys.settrace scheduler: one pre-emption of thread A before every library line event '
                '(quick: first 2 executions of every distinct line), thread B to completion in the gap, fork per schedule from a pristine parent',
            'All single-pre-emption schedules of two threads building elements of the same / related classes, with the lazily built class '
            'tables empty at the start of every execution; each thread must obtain its solo result. Parser threads (parse_musicxml of the same '
            'score with fractional / integral spellings) are a scenario too; a schedule that does not finish within 120 s is a violation.',
            'Pre-emption bound 1, line granularity, two threads.', '4 C20, 12.1'),
    'C10': (MC, BFS + 'deviation = failing call; observational fingerprint (views, attributes, value, serialisation verdict, '
            'acceptance of every next symbol) compared before/after every failing call', 'Every failing call met (alphabet arguments, '
            'out-of-alphabet arguments, failing attribute/value assignments, refused serialisations) is followed by a fingerprint '
            'comparison computed by replay on fresh objects; the fingerprint also contains what a later removal of each held child does.', NOTE + ' Fingerprint depth k=1.', '4 C10, 12.1'),
    'C11': (MC, BFS + 'differential oracle: fingerprint after each removal vs a rebuilt twin holding the remaining children',
            'Every successful remove / xml_x=None in the add/remove exploration is compared with a fresh twin built from the remaining '
            'children in the same relative order (forward arguments preserved). Part 2 (model-driven): every transition-cover / pumped word '
            'accepted in document order x every position removed, compared with the twin. Thorough adds a tail profile with forward placements '
            'for the five types with repeated names (states five additions deep, every removal judged). Keys carry forward placements.', NOTE + ' Fingerprint depth k=1 plus removal probes.', '4 C11, 12.1'),
    'C12': (MC, 'all multisets with a unique arrangement x all distinct permutations replayed; additions-only BFS with exhaustive '
                'completion search for every rejection',
            'Part (a) enumerates every multiset (size by budget) whose reference automaton has exactly one arrangement and replays every '
            'permutation; part (b) judges every rejected add_child of the additions-only exploration.', NOTE, '4 C12'),
    'C13': (MC, 'product exploration of two live instances (all pairs of depth-2 histories x 3 merge shapes) with object-graph '
                'equality, plus order-independence of all acceptance verdict tables against one pristine process per class',
            'Isolation is judged on the whole object graph reachable from the untouched instance and on the complete verdict tables of '
            'all 441 classes under sorted / reversed / post-workload orders; B also constructed unchecked and switched on; a structural digest '
            'of the shared container templates; trees returned by the parser share nothing and do not depend on what was parsed before '
            '(pristine child vs after spelling variants); verdict tables include the emitted text, probe order alternating between classes.', 'Merge shapes before/inside/after/toggled only; alphabet capped.', '4 C13, 12.1'),
    'C14': (MC, BFS + 'deepcopy in every reached state, then every single mutation on either side; attribute recipes x check flag x nesting',
            'Copies are compared with the original in every state of the structural exploration and for every attribute recipe '
            '(keyword, dot, overwrite, removal) of every class; aliasing is probed by mutating one side and re-observing the other.',
            NOTE + ' Removal histories are left to C11.', '4 C14'),
    'C15': (MC, 'lock-step twin exploration: all shortcut-operation sequences up to depth 2/3 vs the explicit API; all attribute '
                'sequences of length <= 2', 'Same outcome class and serialisation at every step; read-back through xml_* and dot '
            'attributes compared with the serialised order / stored values. Part 3: every state reached by <= 2/3 successful explicit additions '
            '(forward placements included) x every shortcut on a held name; reads must address the same child as find_child on the twin.', 'The explicit twin encodes the documented mapping.', '4 C15, 12.1'),
    'C16': (MC, 'all strings up to length 2/3 over a markup/whitespace/non-BMP alphabet x all text and attribute hosts; '
                + BFS + 'to_string (element and child) as operations with fingerprint comparison',
            'Escaping is decided by re-parsing with xml.etree; purity by comparing the fingerprint of histories with and without the '
            'interposed serialisation; subtrees are compared alone vs nested.', NOTE, '4 C16'),
    'C18': (MC, 'all words (valid or not) up to a length bound on unchecked instances + all (parent, child) flag assignments',
            'Unchecked elements must accept everything in insertion order and agree byte-for-byte with checked twins on valid words; '
            'checked children stay checked inside unchecked parents and vice versa (incl. three levels: checked root > unchecked > incomplete '
            'checked descendant must be refused from the root); an element switched on through the setter equals its checked twin.', NOTE, '4 C18, 12.1'),
    'C19': (MC, BFS + 'monitor on every call: exception class/site, captured stdout/stderr, per-call alarm; out-of-alphabet arguments included',
            'Every call of the misuse exploration (foreign elements, non-elements, None, detached children, bad forward indices, both '
            'intelligent_choice values) must succeed or raise a documented type, silently (warnings count as output). Part 2: every simple type x '
            'numeric / object / string probes (incl. ints beyond float range) through class, element and attribute entry points.', NOTE, '4 C19'),
}

NOT_YET = {}

ALL = ['C%02d' % i for i in range(1, 21)]


def main():
    checks = []
    for pid in ALL:
        if pid not in CHECKS:
            continue
        cat, tech, text, note, ref = CHECKS[pid]
        checks.append({
            'property_id': pid,
            'quick_cmd': f'./check {pid} quick',
            'thorough_cmd': f'./check {pid} thorough',
            'evidence_file': f'/verif/evidence/{pid}.json',
            'replay_cmd_template': './check replay {path}',
            'engine': 'mc',
            'level_claimed': {'category': cat, 'text': text, 'design_ref': 'DESIGN.md section ' + ref},
            'level_note': note,
            'technique': tech,
        })
    na = [{'property_id': pid, 'reason': NOT_YET.get(pid, 'check not built yet in this tree; planned in DESIGN.md section 4')}
          for pid in ALL if pid not in CHECKS]
    m = {
        'version': 1,
        'setup_cmd': './check setup',
        'hooks': {
            'guard': 'ALEXGORJI_MUSICXML_VERIF',
            'enable': 'no source hooks are used: every observation is made from outside (introspection, tracing, wrapping, subprocess environment); the guard names no code',
            'baseline_off_cmd': 'cd /repo && /venv/bin/python -m pytest -ra -q -p no:cacheprovider --timeout=900 --continue-on-collection-errors',
            'source_commits': [],
            'add_only': True,
        },
        'engines': [{'name': 'mc', 'path': '/verif/mc', 'serves_properties': sorted(CHECKS),
                     'kind_free_text': 'hand-written explicit-state / bounded-exhaustive explorer over the real Python objects, '
                                       'reference automata from the pinned XSD, JDK javax.xml.validation as lexical/document oracle'}],
        'checks': checks,
        'not_applicable': na,
        'notes': 'See DESIGN.md (sections 9-12: as built, repairs and known findings, seeded changes and detection). Known genuine defects are '
                 'listed in known_findings.jsonl with exact witness keys in known_witnesses/ (fixed: lines record the 20 repairs made in /repo); '
                 '110 verified property-breaking changes are kept under seeded/. No property is left unclaimed.',
    }
    with open(os.path.join(VERIF, 'MANIFEST.json'), 'w') as fh:
        json.dump(m, fh, indent=1)
    print('MANIFEST.json written:', len(checks), 'checks,', len(na), 'not applicable')


if __name__ == '__main__':
    main()
