"""Generates /verif/MANIFEST.json from the table below (python3 mc/manifest.py)."""
import os
import json

VERIF = os.path.dirname(os.path.dirname(os.path.abspath(__file__)))

# property id -> (category, technique, level text, level note, design ref)
CHECKS = {
    'C02': ('model_checking',
            'model-driven: all traces of each content-model DFA up to a bound replayed on the real element',
            'Every accepted word (up to a per-type length bound), a transition cover and all pumped simple cycles of the '
            'reference DFA of each of the 94 content models are replayed against the real element; acceptance, final '
            'check and emitted order are compared with the word. Exhaustive within the stated word bounds.',
            'Trusts the pinned schema copy, my Glushkov construction (cross-checked against the JDK validator in setup '
            'and against the library templates by C03); children are opaque instances.', '4 C02'),
}

NOT_YET = {}

ALL = ['C%02d' % i for i in range(1, 21)]


def main():
    checks = []
    for pid in ALL:
        if pid not in CHECKS:
            continue
        cat, tech, text, note, ref = CHECKS[pid]
        checks.append({
            'property_id': pid,
            'quick_cmd': f'./check {pid} quick',
            'thorough_cmd': f'./check {pid} thorough',
            'evidence_file': f'/verif/evidence/{pid}.json',
            'replay_cmd_template': './check replay {path}',
            'engine': 'mc',
            'level_claimed': {'category': cat, 'text': text, 'design_ref': 'DESIGN.md section ' + ref},
            'level_note': note,
            'technique': tech,
        })
    na = [{'property_id': pid, 'reason': NOT_YET.get(pid, 'check not built yet in this tree; planned in DESIGN.md section 4')}
          for pid in ALL if pid not in CHECKS]
    m = {
        'version': 1,
        'setup_cmd': './check setup',
        'hooks': {
            'guard': 'ALEXGORJI_MUSICXML_VERIF',
            'enable': 'no source hooks are used: every observation is made from outside (introspection, tracing, wrapping, subprocess environment); the guard names no code',
            'baseline_off_cmd': 'cd /repo && /venv/bin/python -m pytest -ra -q -p no:cacheprovider --timeout=900 --continue-on-collection-errors',
            'source_commits': [],
            'add_only': True,
        },
        'engines': [{'name': 'mc', 'path': '/verif/mc', 'serves_properties': sorted(CHECKS),
                     'kind_free_text': 'hand-written explicit-state / bounded-exhaustive explorer over the real Python objects, '
                                       'reference automata from the pinned XSD, JDK javax.xml.validation as lexical/document oracle'}],
        'checks': checks,
        'not_applicable': na,
        'notes': 'See DESIGN.md. Known genuine defects are listed in known_findings.jsonl with exact witness keys in known_witnesses/.',
    }
    with open(os.path.join(VERIF, 'MANIFEST.json'), 'w') as fh:
        json.dump(m, fh, indent=1)
    print('MANIFEST.json written:', len(checks), 'checks,', len(na), 'not applicable')


if __name__ == '__main__':
    main()
