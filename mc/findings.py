"""Maintainer tool (never run by a check): turn reviewed violation dumps into known-finding entries.

  python3 mc/findings.py summary <dump>...
  python3 mc/findings.py accept --id ID --property Cxx --scope s1,s2|* --kind k1,k2|* --what TEXT <dump>...

`accept` writes known_witnesses/ID.jsonl with the exact (scope, kind, key) triples found in the dumps that
match the given property/scopes/kinds, and upserts the finding line in known_findings.jsonl.
"""
import os
import sys
import json
import argparse
import collections

VERIF = os.path.dirname(os.path.dirname(os.path.abspath(__file__)))
sys.path.insert(0, VERIF)
from mc.core import jkey, FINDINGS_FILE, WITNESS_DIR  # noqa: E402


def load(dumps):
    for d in dumps:
        for line in open(d, encoding='utf-8'):
            line = line.strip()
            if line:
                yield json.loads(line)


def summary(dumps):
    c = collections.Counter()
    ex = {}
    for r in load(dumps):
        k = (r['property'], r['scope'], r['kind'])
        c[k] += 1
        kk = jkey(r['key'])
        if k not in ex or len(kk) < len(ex[k]):
            ex[k] = kk
    for k, v in sorted(c.items()):
        print(k, v, ex[k][:200])


def accept(a):
    scopes = None if a.scope == '*' else set(a.scope.split(','))
    kinds = None if a.kind == '*' else set(a.kind.split(','))
    seen = {}
    for r in load(a.dumps):
        if r['property'] != a.property:
            continue
        if scopes is not None and r['scope'] not in scopes:
            continue
        if kinds is not None and r['kind'] not in kinds:
            continue
        seen[(r['scope'], r['kind'], jkey(r['key']))] = r
    if not seen:
        print('no matching violations in dumps')
        return 1
    os.makedirs(WITNESS_DIR, exist_ok=True)
    wf = os.path.join(WITNESS_DIR, a.id + '.jsonl')
    old = {}
    if a.merge and os.path.exists(wf):
        for line in open(wf, encoding='utf-8'):
            w = json.loads(line)
            old[(w['scope'], w['kind'], jkey(w['key']))] = w
    for k, r in seen.items():
        old[k] = {'scope': r['scope'], 'kind': r['kind'], 'key': r['key']}
    with open(wf, 'w', encoding='utf-8') as fh:
        for k in sorted(old):
            fh.write(json.dumps(old[k], sort_keys=True, ensure_ascii=True) + '\n')
    rep = min(seen.values(), key=lambda r: len(jkey(r['key'])))
    rec = {'id': a.id, 'property': a.property, 'scopes': sorted({k[0] for k in old}), 'kinds': sorted({k[1] for k in old}),
           'what': a.what, 'status': 'open', 'witness_keys': len(old),
           'representative': {kk: rep[kk] for kk in rep if kk not in ('property', 'tier')}}
    lines = []
    if os.path.exists(FINDINGS_FILE):
        for line in open(FINDINGS_FILE, encoding='utf-8'):
            s = line.strip()
            if s and not s.startswith('fixed:') and not s.startswith('#'):
                if json.loads(s)['id'] == a.id:
                    continue
            lines.append(line.rstrip('\n'))
    lines.append(json.dumps(rec, ensure_ascii=True, default=repr))
    with open(FINDINGS_FILE, 'w', encoding='utf-8') as fh:
        fh.write('\n'.join(lines) + '\n')
    print(a.id, len(old), 'witness keys')
    return 0


def main():
    if len(sys.argv) > 1 and sys.argv[1] == 'summary':
        return summary(sys.argv[2:])
    p = argparse.ArgumentParser()
    p.add_argument('cmd')
    p.add_argument('--id', required=True)
    p.add_argument('--property', required=True)
    p.add_argument('--scope', default='*')
    p.add_argument('--kind', default='*')
    p.add_argument('--what', required=True)
    p.add_argument('--merge', action='store_true')
    p.add_argument('dumps', nargs='+')
    a = p.parse_args()
    return accept(a)


if __name__ == '__main__':
    sys.exit(main() or 0)
