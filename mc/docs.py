"""Document-level helpers shared by C08 / C09: typed infoset comparison against the reference schema."""
import os
import decimal
import xml.etree.ElementTree as ET

from mc import impl
from mc.ref import xsd as R

XML_NS = '{http://www.w3.org/XML/1998/namespace}'
XLINK_NS = '{http://www.w3.org/1999/xlink}'
NUMERIC_ROOTS = {'xs:decimal', 'xs:integer', 'xs:nonNegativeInteger', 'xs:positiveInteger'}
INTEGER_ROOTS = {'xs:integer', 'xs:nonNegativeInteger', 'xs:positiveInteger'}


def qname(k):
    if k.startswith(XML_NS):
        return 'xml:' + k[len(XML_NS):]
    if k.startswith(XLINK_NS):
        return 'xlink:' + k[len(XLINK_NS):]
    return k


def type_roots(t):
    """set of builtin roots of simple type t (several for unions)"""
    if t is None:
        return set()
    if t.startswith('ref:'):
        return {'xs:string'}
    if t.startswith('xs:'):
        return {t}
    f = R.st_facets(t)
    if f['union']:
        out = set()
        for m in f['union']['members']:
            out |= type_roots(m)
        for i in f['union']['inline']:
            out |= type_roots(i['base'])
        return out
    return type_roots(f['base']) if f['base'] else set()


def text_type(name):
    """simple type of the character content of element `name` (None if it has none)"""
    ts = R.partwise_elements().get(name)
    if not ts or len(ts) != 1:
        return None
    kind, t = R.element_type(name)
    return t if kind == 'simple' else R.simple_content_base(t)


def attr_type(name, an):
    ts = R.partwise_elements().get(name)
    if not ts or len(ts) != 1:
        return None
    kind, t = R.element_type(name)
    if kind != 'complex':
        return None
    for (a, at, req) in R.ctype_attrs(t):
        if a == an:
            return at
    return None


def norm(s):
    return ' '.join((s or '').split())


def same_value(a, b, t, numeric_spelling='decimal-only'):
    """a: input lexical, b: output lexical, t: simple type.  numeric_spelling: 'decimal-only' (C08: 4 vs 4.0 only for
    decimal-typed content, integers identical) or 'any-numeric' (C09: up to numeric spelling)"""
    a0, b0 = a or '', b or ''
    roots = type_roots(t)
    if roots and roots <= {'xs:string'}:
        return a0 == b0
    if norm(a0) == norm(b0):
        return True
    numeric = roots & NUMERIC_ROOTS
    if not numeric:
        return False
    if numeric_spelling == 'decimal-only' and not (roots & {'xs:decimal'}):
        return False
    try:
        return decimal.Decimal(norm(a0)) == decimal.Decimal(norm(b0))
    except decimal.InvalidOperation:
        return False


def compare(inp, out, numeric_spelling='decimal-only', path=''):
    """first difference between two ET elements as a string, or None"""
    p = path + '/' + inp.tag
    if inp.tag != out.tag:
        return p + ': tag %s != %s' % (inp.tag, out.tag)
    ai = {qname(k): v for k, v in inp.attrib.items()}
    ao = {qname(k): v for k, v in out.attrib.items()}
    if set(ai) != set(ao):
        return p + ': attribute set %s != %s' % (sorted(ai), sorted(ao))
    for k in ai:
        if not same_value(ai[k], ao[k], attr_type(inp.tag, k), numeric_spelling):
            return p + '@%s: %r != %r' % (k, ai[k], ao[k])
    tt = text_type(inp.tag)
    ti, to = inp.text, out.text
    if len(inp) or tt is None:
        ti, to = norm(ti), norm(to)
        if ti != to:
            return p + ': text %r != %r' % (ti, to)
    elif not same_value(ti, to, tt, numeric_spelling):
        return p + ': text %r != %r' % (ti, to)
    if len(inp) != len(out):
        return p + ': children %s != %s' % ([c.tag for c in inp], [c.tag for c in out])
    for ci, co in zip(inp, out):
        d = compare(ci, co, numeric_spelling, p)
        if d:
            return d
        if norm(ci.tail) != norm(co.tail):
            return p + ': tail text after %s %r != %r' % (ci.tag, norm(ci.tail), norm(co.tail))
    return None


def inventory(e, path=''):
    """multiset of (path, kind, value) items of a document: elements, attributes, non-whitespace text and tails"""
    out = []
    p = path + '/' + e.tag
    out.append((p, 'element', ''))
    for k, v in e.attrib.items():
        out.append((p, '@' + qname(k), norm(v)))
    if norm(e.text):
        out.append((p, 'text', norm(e.text)))
    for c in e:
        out += inventory(c, p)
        if norm(c.tail):
            out.append((p, 'tail', norm(c.tail)))
    return out


def numeric_equal(a, b):
    try:
        return decimal.Decimal(a) == decimal.Decimal(b)
    except decimal.InvalidOperation:
        return False


def missing_items(inp, out):
    """items of the input inventory that do not occur in the output (values compared up to numeric spelling)"""
    import collections
    have = collections.defaultdict(list)
    for (p, k, v) in inventory(out):
        have[(p, k)].append(v)
    miss = []
    for (p, k, v) in inventory(inp):
        lst = have.get((p, k), [])
        hit = None
        for i, w in enumerate(lst):
            if w == v or numeric_equal(v, w):
                hit = i
                break
        if hit is None:
            miss.append((p, k, v))
        else:
            lst.pop(hit)
    return miss


def parse_text(text, run_dir, tag='doc'):
    """write raw XML text to a file and run the library's parser on it: Outcome (value = XMLElement)"""
    from musicxml.parser.parser import parse_musicxml
    path = os.path.join(run_dir, '%s_%d.xml' % (tag, os.getpid()))
    with open(path, 'w', encoding='utf-8') as fh:
        if not text.lstrip().startswith('<?xml'):
            fh.write('<?xml version="1.0" encoding="UTF-8"?>\n')
        fh.write(text)
    return impl.call(parse_musicxml, path)


def run_dir():
    d = os.environ.get('VERIF_RUN_DIR') or os.path.join(os.path.dirname(os.path.dirname(os.path.abspath(__file__))), '.run', 'adhoc')
    os.makedirs(d, exist_ok=True)
    return d
