"""Oracles evaluated on the structural exploration (mc.explore.bfs): C01, C06, C07, C12(b), C19.
One exploration shape, several invariants; each check module picks its oracle and profiles."""
import os
import collections
import xml.etree.ElementTree as ET

from mc import core, impl, explore
from mc.impl import nfa

ALLOWED_PREFIX = ('XMLElement', 'XMLChildContainer', 'XSD')


class Collector:
    def __init__(self):
        self.vio = []
        self.seen = set()
        self.stats = collections.Counter()

    def add(self, scope, kind, key, pre, op, **detail):
        k = (scope, kind, core.jkey(key))
        self.stats['violating_transitions'] += 1
        if k in self.seen:
            return
        self.seen.add(k)
        self.vio.append({'scope': scope, 'kind': kind, 'key': key,
                         'trace': [list(x) for x in pre.hist] + [list(op)], **detail})


def opj(op):
    return list(op)


# ---------------------------------------------------------------- C01

def oracle_C01(col):
    def f(T, pre, op, st, o):
        if op[0] != 'S':
            return
        col.stats['serialisations'] += 1
        if not o.ok:
            col.stats['serialisation_refused'] += 1
            return
        col.stats['serialisation_ok'] += 1
        if not st.el.xsd_check:
            return
        try:
            tags = impl.child_tags(o.value)
        except ET.ParseError:
            col.add(T, 'invalid-child-sequence', [pre.names, opj(op), 'not-well-formed'], pre, op)
            return
        if not nfa(T).accepts(tags):
            col.add(T, 'invalid-child-sequence', [pre.names, opj(op), tags], pre, op, observed=tags)
        else:
            col.stats['valid_outputs'] += 1
    return f


# ---------------------------------------------------------------- C06

def oracle_C06(col):
    def f(T, pre, op, st, o):
        el = st.el
        exp = [st.made[i] for i in st.model]
        key = [pre.names, opj(op)] + ([] if el.xsd_check else ['unchecked'])
        r_ins = impl.call(lambda: list(el.get_children(ordered=False)))
        r_ord = impl.call(lambda: list(el.get_children(ordered=True)))
        col.stats['states_checked'] += 1
        if not r_ins.ok or not r_ord.ok:
            col.add(T, 'views-differ', key + ['view-raises'], pre, op,
                    observed=[r_ins.as_json(), r_ord.as_json()])
            return
        ins, ordv = r_ins.value, r_ord.value
        ids_exp = [id(x) for x in exp]
        for nm, view in (('insertion', ins), ('ordered', ordv)):
            ids = [id(x) for x in view]
            cnt = collections.Counter(ids)
            if any(c > 1 for c in cnt.values()):
                col.add(T, 'child-duplicated', key + [nm], pre, op, observed=[c.name for c in view])
            if any(i not in cnt for i in ids_exp):
                col.add(T, 'child-lost', key + [nm], pre, op, observed=[c.name for c in view],
                        expected=[c.name for c in exp])
            if any(i not in ids_exp for i in ids):
                col.add(T, 'phantom-child', key + [nm], pre, op, observed=[c.name for c in view],
                        expected=[c.name for c in exp])
        # same-named children: where the history consists of plain additions and same-name replacements only (no forward
        # placement, no removal, no shortcut), "replacements substituted" fixes their relative order in the ordered view too:
        # it is the order of the reference list
        hist_ops = list(pre.hist) + [op]
        if all(h[0] in ('A', 'S', 'T') or (h[0] == 'P' and _same_name_replace(st, h)) for h in hist_ops) and \
                sorted(id(x) for x in ordv) == sorted(ids_exp):
            for nm in {c.name for c in exp}:
                if [id(c) for c in ordv if c.name == nm] != [id(c) for c in exp if c.name == nm]:
                    col.add(T, 'same-name-order', key + [nm], pre, op, observed=[c.name for c in ordv])
                    break
        if [id(x) for x in ins] != ids_exp and sorted(id(x) for x in ins) == sorted(ids_exp):
            col.add(T, 'insertion-order-wrong', key, pre, op, observed=[c.name for c in ins],
                    expected=[c.name for c in exp])
        if sorted(id(x) for x in ins) != sorted(id(x) for x in ordv):
            col.add(T, 'views-differ', key, pre, op, observed=[[c.name for c in ins], [c.name for c in ordv]])
        for c in exp:
            p = impl.call(c.get_parent)
            if not p.ok or p.value is not el:
                col.add(T, 'parent-wrong', key, pre, op, observed=c.name)
                break
        for i in st.detached:
            c = st.made[i]
            p = impl.call(c.get_parent)
            if not p.ok or p.value is not None:
                col.add(T, 'removed-still-parented', key, pre, op, observed=c.name)
                break
        if op[0] == 'S' and o.ok:
            try:
                tags = impl.child_tags(o.value)
            except ET.ParseError:
                return
            if collections.Counter(tags) != collections.Counter(c.name for c in exp):
                col.add(T, 'serialised-count', key, pre, op, observed=tags, expected=[c.name for c in exp])
    return f


def _same_name_replace(st, h):
    i = h[1]
    return i < len(st.made) and st.made[i] is not None and st.made[i].name == h[2]


# ---------------------------------------------------------------- C07

def oracle_C07(col):
    def f(T, pre, op, st, o):
        if op[0] not in ('A', 'F', 'Xs') or not o.ok:
            return
        if op[0] == 'Xs' and op[2] == 'none':
            return
        A = nfa(T)
        if not A.completable(pre.names):
            col.stats['pre_state_already_dead'] += 1
            return
        col.stats['successful_additions_judged'] += 1
        post = st.names()
        if not A.completable(post):
            col.add(T, 'dead-end-accepted', [pre.names, opj(op)], pre, op, observed=post)
    return f


# ---------------------------------------------------------------- C12 (b)

def oracle_C12b(col):
    def f(T, pre, op, st, o):
        if op[0] != 'A':
            return
        A = nfa(T)
        if o.ok:
            col.stats['accepted_additions'] += 1
            return
        col.stats['rejected_additions'] += 1
        # "a child is never rejected while it, together with the children already present, can still be arranged
        # into (part of) a valid sequence" - judged only from states reached by accepted additions
        if A.completable(pre.names) and A.completable(pre.names + [op[1]]):
            col.add(T, 'compatible-child-rejected', [pre.names, op[1]], pre, op, observed=o.as_json())
        else:
            col.stats['rejections_justified'] += 1
    return f


# ---------------------------------------------------------------- C19

def classify_exception(o, op):
    """None if the outcome is a documented rejection, else the violation kind"""
    if o.hang:
        return 'hang'
    if o.ok:
        return None
    e = o.exc
    if e.startswith(ALLOWED_PREFIX):
        return None
    if e in ('TypeError', 'ValueError'):
        return None
    if e == 'AttributeError' and op[0] in ('Xs', 'At', 'Xu') and 'NoneType' not in (o.exc_msg or ''):
        return None
    return 'internal-error:%s@%s' % (e, o.site)


def oracle_C19(col):
    def f(T, pre, op, st, o):
        col.stats['calls'] += 1
        if not o.ok:
            col.stats['exc:' + o.exc] += 1
        k = classify_exception(o, op)
        if k:
            col.add(T, k, [pre.names, opj(op)], pre, op, observed=o.as_json())
        if o.output:
            col.add(T, 'printed', [pre.names, opj(op)], pre, op, observed=o.output[:200])
    return f


ORACLES = {'C01': oracle_C01, 'C06': oracle_C06, 'C07': oracle_C07, 'C12b': oracle_C12b, 'C19': oracle_C19}


FACTORIES = dict(ORACLES)
FACTORIES['collector'] = Collector


def run_struct(pid, tier, oname, profiles, extra=None, min_guard=None):
    """profiles: list of (profile, quick budget, thorough budget)"""
    run_ = core.Run(pid, tier)
    if os.environ.get('VERIF_PROFILES'):
        # maintainer switch (never set by the registered commands): 'prof:quick:thorough,prof:quick:thorough'
        profiles = [(a, int(b), int(c)) for a, b, c in (x.split(':') for x in os.environ['VERIF_PROFILES'].split(','))]
    r1 = explore.r1_prepare()
    specs = []
    only = set(filter(None, os.environ.get('VERIF_TYPES', '').split(',')))   # maintainer switch, never set by a registered command
    for T in impl.TYPES:
        if only and T not in only:
            continue
        for (prof, bq, bt) in profiles:
            # profile syntax: <operation profile>[@fwd|@deep][!unchecked]; 'fwd' / 'deep' alone imply their alphabet
            budget = bq if tier == 'quick' else bt
            if not budget:
                continue        # profile not part of this tier
            check = not prof.endswith('!unchecked')
            base = prof.split('!')[0]
            alpha = None
            if '@' in base:
                base, alpha = base.split('@')
            elif base in ('fwd', 'deep'):
                alpha = base
            sigma = None
            if alpha:
                sigma = explore.forward_alphabet(T) if alpha == 'fwd' else explore.deep_alphabet(T)
                if not sigma:
                    continue
            sp = explore.Spec(T, base, budget, oname, check=check, sigma=sigma)
            if alpha and alpha != base:
                sp.key = '%s/%s@%s%s' % (T, base, alpha, '' if check else '!unchecked')
                sp.tag = '%s@%s' % (base, alpha)
            specs.append(sp)
    res = explore.run_bfs(specs, FACTORIES)
    tot = collections.Counter()
    ostats = collections.Counter()
    per_type = {}
    samples = []
    guards = []
    for key in sorted(res):
        r = res[key]
        run_.add_violations(r['vio'])
        tot['states'] += r['states']
        tot['transitions'] += r['transitions']
        for k, v in r['ostats'].items():
            ostats[k] += v
        per_type.setdefault(r['T'], {})[r['profile']] = {
            'depth': r['depth'], 'states': r['states'], 'transitions': r['transitions'], 'sigma': r['sigma'],
            'sigma_full': r['sigma_full'], 'capped_by_budget': r['capped_by_budget']}
        if r['depth'] < 1:
            guards.append(f"type {r['T']} profile {r['profile']}: no level completed")
    if len(per_type) != 94:
        guards.append(f'{len(per_type)} types explored, expected 94')
    for prof in {p[0].split('!')[0].split('@')[0] for p in profiles}:
        samples.append({'type': 'note', 'profile': prof,
                        'history': [list(o) for o in explore.ops_for('note', ['pitch'], [0], prof,
                                                                      explore.reduced_alphabet('note'))[:6]]})
    if extra:
        extra(run_, tot, ostats, guards, samples)
    if min_guard:
        for k, why in min_guard.items():
            if ostats.get(k, 0) == 0:
                guards.append(f'{why} (counter {k} is 0)')
    run_.assumptions += [
        'alphabet reduction R1 (3 representatives per run of interchangeable sibling leaves), checked separately at shallow depth',
        'children are opaque (unchecked) instances: only the explored element\'s own structure is judged',
        'depth per type is the largest level whose estimated transitions fit the budget; deeper histories are not explored',
        'states merged only when the reachable object graphs are isomorphic (generic canonical form G)']
    cov = {'states': tot['states'], 'transitions': tot['transitions'],
           'traces_validated_against_impl': tot['transitions'],
           'samples': samples, 'exhaustive': True,
           'rule': 'BFS over histories of %s per type, budgets %s, dedup by object-graph canonical form' %
                   ([p[0] for p in profiles], [(p[1] if tier == 'quick' else p[2]) for p in profiles]),
           'oracle_counters': dict(ostats), 'per_type': per_type, 'r1_check': r1,
           'depth_histogram': dict(collections.Counter(v[p]['depth'] for v in per_type.values() for p in v))}
    return run_.finish(cov, guard_errors=guards)


def replay_struct(rec, oname):
    """re-execute the recorded trace on fresh real objects and evaluate the oracle on the last transition"""
    T = rec['scope']
    trace = [tuple(x) for x in rec['trace']]
    hist, op = trace[:-1], trace[-1]
    st = impl.build(T, hist)
    pre = explore.Pre(st, tuple(hist))
    o = impl.apply(st, op)
    col = Collector()
    ORACLES[oname](col)(T, pre, op, st, o)
    hit = [v for v in col.vio if v['kind'] == rec['kind'] and core.jkey(v['key']) == core.jkey(rec['key'])]
    if col.vio and 'difference' in col.vio[0]:
        extra = {'difference': col.vio[0]['difference']}
    else:
        extra = {}
    return {'reproduced': bool(hit), 'violations_on_last_step': [(v['kind'], v['key']) for v in col.vio],
            'outcome': o.as_json(), 'children_after': st.names(), **extra}
