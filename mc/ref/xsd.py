"""Reference reading of the pinned MusicXML 4.0 schema (/verif/spec).

Independent of the library: uses xml.etree only.  Provides
  * content models (particle ASTs) for the element-content complex types,
  * attribute tables per complex type / attribute group,
  * the element declarations reachable from score-partwise (441 names),
  * simple-type facets (for generating probe values only).
"""
import os
import re
import hashlib
import functools
import xml.etree.ElementTree as ET

XS = '{http://www.w3.org/2001/XMLSchema}'
SPEC_DIR = os.path.join(os.path.dirname(os.path.dirname(os.path.dirname(os.path.abspath(__file__)))), 'spec')
XSD_PATH = os.path.join(SPEC_DIR, 'musicxml_4_0.xsd')

root = ET.parse(XSD_PATH).getroot()
GROUPS = {g.get('name'): g for g in root if g.tag == XS + 'group'}
CTYPES = {c.get('name'): c for c in root if c.tag == XS + 'complexType'}
STYPES = {c.get('name'): c for c in root if c.tag == XS + 'simpleType'}
AGROUPS = {c.get('name'): c for c in root if c.tag == XS + 'attributeGroup'}

_sp = root.find(f"{XS}element[@name='score-partwise']")
ANON = {
    'score-partwise': _sp.find(f"{XS}complexType"),
    'part': _sp.find(f"{XS}complexType//{XS}element[@name='part']/{XS}complexType"),
    'measure': _sp.find(f"{XS}complexType//{XS}element[@name='measure']/{XS}complexType"),
}
# the fourth anonymous type: attributes/directive
ANON['directive'] = CTYPES['attributes'].find(f".//{XS}element[@name='directive']/{XS}complexType")


def spec_sha256():
    return hashlib.sha256(open(XSD_PATH, 'rb').read()).hexdigest()


def ct_node(name):
    """complexType ET node by reference-model type name (named or one of the 4 anonymous)"""
    if name in ANON:
        # 'part' / 'measure' / 'directive' / 'score-partwise' are not names of named complex types
        if name not in CTYPES:
            return ANON[name]
    return CTYPES[name]


def occ(e):
    mn = int(e.get('minOccurs', '1'))
    mx = e.get('maxOccurs', '1')
    mx = None if mx == 'unbounded' else int(mx)
    return mn, mx


_PART = (XS + 'element', XS + 'sequence', XS + 'choice', XS + 'group')


def particle(e):
    """particle AST: ('el', name, mn, mx) | ('seq'|'cho', [children], mn, mx)"""
    mn, mx = occ(e)
    t = e.tag.replace(XS, '')
    if t == 'element':
        return ('el', e.get('name') or e.get('ref'), mn, mx)
    if t in ('sequence', 'choice'):
        kids = [particle(c) for c in e if c.tag in _PART]
        return ('seq' if t == 'sequence' else 'cho', kids, mn, mx)
    if t == 'group':
        g = GROUPS[e.get('ref')]
        inner = [c for c in g if c.tag in (XS + 'sequence', XS + 'choice')]
        assert len(inner) == 1
        return ('seq', [particle(inner[0])], mn, mx)
    raise NotImplementedError(t)


def content_model_of(ct):
    for c in ct:
        if c.tag in (XS + 'sequence', XS + 'choice', XS + 'group'):
            return particle(c)
        if c.tag == XS + 'complexContent':
            ext = c[0]
            base = content_model_of(CTYPES[ext.get('base')])
            own = [particle(x) for x in ext if x.tag in (XS + 'sequence', XS + 'choice', XS + 'group')]
            if base is None and not own:
                return None
            return ('seq', ([base] if base else []) + own, 1, 1)
    return None


@functools.lru_cache(maxsize=None)
def content_model(type_name):
    return content_model_of(ct_node(type_name))


def element_content_types():
    """names of complex types with element content (94 expected: 91 named + 3 anonymous)"""
    out = [n for n in CTYPES if content_model_of(CTYPES[n]) is not None]
    out += [n for n in ('score-partwise', 'part', 'measure')]
    return sorted(out)


def pp(p, ind=0):
    kind, body, mn, mx = p
    s = ' ' * ind + f"{kind}[{mn},{mx}]"
    if kind == 'el':
        return s + ' ' + body
    return s + '\n' + '\n'.join(pp(k, ind + 2) for k in body)


def child_decls(type_name):
    """{child name: (declared type name or ('anon', name))} for the children of a complex type"""
    out = {}

    def walk(e):
        for c in e:
            if c.tag == XS + 'element':
                n = c.get('name')
                t = c.get('type')
                if t is None:
                    t = ('anon', n)
                out.setdefault(n, set()).add(t)
            elif c.tag in (XS + 'sequence', XS + 'choice'):
                walk(c)
            elif c.tag == XS + 'group':
                g = GROUPS[c.get('ref')]
                walk(g)
            elif c.tag == XS + 'complexContent':
                ext = c[0]
                for n, ts in child_decls(ext.get('base')).items():
                    out.setdefault(n, set()).update(ts)
                walk(ext)

    walk(ct_node(type_name))
    return out


@functools.lru_cache(maxsize=None)
def partwise_elements():
    """element name -> set of declared types, for all elements reachable from score-partwise"""
    decl = {'score-partwise': {('anon', 'score-partwise')}}
    todo = ['score-partwise']
    seen_types = set()
    while todo:
        tn = todo.pop()
        if tn in seen_types:
            continue
        seen_types.add(tn)
        for n, ts in child_decls(tn).items():
            decl.setdefault(n, set()).update(ts)
            for t in ts:
                if isinstance(t, tuple):
                    todo.append(t[1])
                elif not t.startswith('xs:') and t in CTYPES:
                    todo.append(t)
    return decl


def element_type(name):
    """single declared type of a partwise element name: returns ('complex', tname) | ('simple', tname)"""
    ts = partwise_elements()[name]
    assert len(ts) == 1, (name, ts)
    t = next(iter(ts))
    if isinstance(t, tuple):
        return ('complex', t[1])
    if t.startswith('xs:'):
        return ('simple', t)
    if t in CTYPES:
        return ('complex', t)
    return ('simple', t)


# ---------------------------------------------------------------- attributes

def _attrs_from(node):
    """list of (qualified name, type, required) declared directly under node (attribute / attributeGroup)"""
    out = []
    for c in node:
        if c.tag == XS + 'attribute':
            if c.get('ref'):
                out.append((c.get('ref'), 'ref:' + c.get('ref'), c.get('use') == 'required'))
            else:
                out.append((c.get('name'), c.get('type'), c.get('use') == 'required'))
        elif c.tag == XS + 'attributeGroup':
            out.extend(agroup_attrs(c.get('ref')))
    return out


@functools.lru_cache(maxsize=None)
def agroup_attrs(name):
    if name.startswith('xlink:'):
        # the stub declares: href (required where used via link-attributes), type, role, title, show, actuate
        raise KeyError(name)
    return tuple(_attrs_from(AGROUPS[name]))


@functools.lru_cache(maxsize=None)
def ctype_attrs(type_name):
    ct = ct_node(type_name)
    for c in ct:
        if c.tag == XS + 'simpleContent':
            return tuple(_attrs_from(c[0]))
        if c.tag == XS + 'complexContent':
            ext = c[0]
            return tuple(ctype_attrs(ext.get('base'))) + tuple(_attrs_from(ext))
    return tuple(_attrs_from(ct))


def simple_content_base(type_name):
    ct = ct_node(type_name)
    for c in ct:
        if c.tag == XS + 'simpleContent':
            return c[0].get('base')
    return None


def is_mixed_or_empty(type_name):
    return content_model(type_name) is None and simple_content_base(type_name) is None


# ---------------------------------------------------------------- simple types (facets only)

def st_facets(name):
    """facets of a named MusicXML simple type, for probe generation."""
    st = STYPES[name]
    out = {'name': name, 'base': None, 'enum': [], 'pattern': None, 'min_in': None, 'max_in': None, 'min_ex': None,
           'max_ex': None, 'min_len': None, 'union': None}
    r = st.find(XS + 'restriction')
    if r is not None:
        out['base'] = r.get('base')
        for c in r:
            t = c.tag.replace(XS, '')
            v = c.get('value')
            if t == 'enumeration':
                out['enum'].append(v)
            elif t == 'pattern':
                out['pattern'] = v
            elif t == 'minInclusive':
                out['min_in'] = v
            elif t == 'maxInclusive':
                out['max_in'] = v
            elif t == 'minExclusive':
                out['min_ex'] = v
            elif t == 'maxExclusive':
                out['max_ex'] = v
            elif t == 'minLength':
                out['min_len'] = v
    u = st.find(XS + 'union')
    if u is not None:
        members = (u.get('memberTypes') or '').split()
        inline = []
        for s in u.findall(XS + 'simpleType'):
            rr = s.find(XS + 'restriction')
            inline.append({'base': rr.get('base'), 'enum': [e.get('value') for e in rr.findall(XS + 'enumeration')]})
        out['union'] = {'members': members, 'inline': inline}
    return out


def st_root_builtin(name):
    """the xs: builtin a named simple type ultimately restricts (None for unions)"""
    seen = set()
    while not name.startswith('xs:'):
        if name in seen:
            return None
        seen.add(name)
        f = st_facets(name)
        if f['base'] is None:
            return None
        name = f['base']
    return name


DECIMAL_BUILTINS = {'xs:decimal'}
INTEGER_BUILTINS = {'xs:integer', 'xs:nonNegativeInteger', 'xs:positiveInteger', 'xs:int'}


def camel(name):
    return ''.join(p[0].upper() + p[1:] for p in name.split('-') if p)
