"""Boundary enumeration of the (small) regular-expression subset used by the schema's pattern facets.

Parses literals, escapes (\\d \\c \\i), character classes (ranges, negation), groups, alternation and the
quantifiers ? * + {n} {n,m}; produces positive candidates (one choice point varied at a time from a minimal base
expansion: every alternative, every quantifier at min / min+1 / max-or-min+2, every class at first / last / interior
member) and near-miss candidates (a quantifier at min-1 or max+1, a class position replaced by a character just
outside the class, a literal dropped or doubled).  Every string is re-judged by the reference validator: the
generator only has to produce interesting strings, it does not decide membership."""

NAME_START = 'A_a:z'
NAME_CHARS = 'A_az-.09:'


class P:
    def __init__(self, s):
        self.s = s
        self.i = 0

    def peek(self):
        return self.s[self.i] if self.i < len(self.s) else None

    def alt(self):
        branches = [self.seq()]
        while self.peek() == '|':
            self.i += 1
            branches.append(self.seq())
        return ('alt', branches) if len(branches) > 1 else branches[0]

    def seq(self):
        items = []
        while self.peek() is not None and self.peek() not in '|)':
            a = self.atom()
            q = self.quant()
            items.append(('rep', a, q[0], q[1]) if q else a)
        return ('seq', items)

    def quant(self):
        c = self.peek()
        if c == '?':
            self.i += 1
            return (0, 1)
        if c == '*':
            self.i += 1
            return (0, None)
        if c == '+':
            self.i += 1
            return (1, None)
        if c == '{':
            j = self.s.index('}', self.i)
            body = self.s[self.i + 1:j]
            self.i = j + 1
            if ',' in body:
                a, b = body.split(',')
                return (int(a), int(b) if b else None)
            return (int(body), int(body))
        return None

    def atom(self):
        c = self.peek()
        if c == '(':
            self.i += 1
            r = self.alt()
            assert self.peek() == ')'
            self.i += 1
            return r
        if c == '[':
            return self.cls()
        if c == '\\':
            self.i += 2
            e = self.s[self.i - 1]
            return self.esc(e)
        if c == '.':
            self.i += 1
            return ('cls', 'ax 9', '\n')
        self.i += 1
        return ('lit', c)

    def esc(self, e):
        if e == 'd':
            return ('cls', '0599', 'a')
        if e == 'c':
            return ('cls', NAME_CHARS, ' ,')
        if e == 'i':
            return ('cls', NAME_START, '1-')
        return ('lit', e)

    def cls(self):
        assert self.peek() == '['
        self.i += 1
        neg = False
        if self.peek() == '^':
            neg = True
            self.i += 1
        members = []
        while self.peek() != ']':
            c = self.peek()
            if c == '\\':
                e = self.s[self.i + 1]
                self.i += 2
                members += list(self.esc(e)[1]) if e in 'dci' else [e]
                continue
            if self.i + 2 < len(self.s) and self.s[self.i + 1] == '-' and self.s[self.i + 2] != ']':
                lo, hi = c, self.s[self.i + 2]
                self.i += 3
                mid = chr((ord(lo) + ord(hi)) // 2)
                members += [lo, mid, hi]
                continue
            members.append(c)
            self.i += 1
        self.i += 1
        if neg:
            outside = ''.join(members)
            inside = [ch for ch in 'a Z9-' if ch not in members]
            return ('cls', ''.join(inside), outside)
        ms = ''.join(members)
        out = ''
        for m in members:
            for cand in (chr(ord(m) - 1), chr(ord(m) + 1)):
                if cand not in ms and cand.isprintable():
                    out += cand
        return ('cls', ms, (out or '~')[:3])


def parse(pattern):
    p = P(pattern)
    r = p.alt()
    assert p.i == len(pattern), (pattern, p.i)
    return r


def base(n):
    k = n[0]
    if k == 'lit':
        return n[1]
    if k == 'cls':
        return n[1][0]
    if k == 'seq':
        return ''.join(base(x) for x in n[1])
    if k == 'alt':
        return base(n[1][0])
    if k == 'rep':
        return base(n[1]) * n[2]
    raise ValueError(k)


def variants(n, negative):
    """strings obtained from node n by varying exactly one choice point (positive) or breaking one (negative)"""
    k = n[0]
    out = []
    if k == 'lit':
        if negative:
            out += ['', n[1] * 2]
        return out
    if k == 'cls':
        if negative:
            out += list(n[2]) + ['']
        else:
            ms = n[1]
            out += [ms[0], ms[-1], ms[len(ms) // 2]]
        return out
    if k == 'seq':
        for i, x in enumerate(n[1]):
            pre = ''.join(base(y) for y in n[1][:i])
            post = ''.join(base(y) for y in n[1][i + 1:])
            for v in variants(x, negative):
                out.append(pre + v + post)
        return out
    if k == 'alt':
        for b in n[1]:
            if not negative:
                out.append(base(b))
            out += variants(b, negative)
        return out
    if k == 'rep':
        _, x, mn, mx = n
        b = base(x)
        if negative:
            if mn > 0:
                out.append(b * (mn - 1))
            if mx is not None:
                out.append(b * (mx + 1))
            for v in variants(x, True):
                out.append(v + b * max(mn - 1, 0))
                if mn == 0:
                    out.append(v)
        else:
            counts = {mn, mn + 1, (mx if mx is not None else mn + 2)}
            for c in sorted(counts):
                if mx is None or c <= mx:
                    out.append(b * c)
            for v in variants(x, False):
                out.append(v + b * max(mn - 1, 0))
                out.append(b * max(mn, 1) + v)
        return out
    raise ValueError(k)


def candidates(pattern):
    ast = parse(pattern)
    pos = [base(ast)] + variants(ast, False)
    neg = variants(ast, True)
    seen = set()
    p2, n2 = [], []
    for s in pos:
        if s not in seen:
            seen.add(s)
            p2.append(s)
    for s in neg:
        if s not in seen:
            seen.add(s)
            n2.append(s)
    return p2, n2
