"""Reference-side sample values and minimal raw-XML documents, generated from the pinned schema only."""
import functools
from xml.sax.saxutils import escape, quoteattr
from mc.ref import xsd as R
from mc.ref.automata import NFA

BUILTIN_SAMPLE = {
    'xs:decimal': '1', 'xs:integer': '1', 'xs:nonNegativeInteger': '1', 'xs:positiveInteger': '1', 'xs:string': 'a',
    'xs:token': 'a', 'xs:NMTOKEN': 'a', 'xs:Name': 'a', 'xs:NCName': 'a', 'xs:ID': 'a', 'xs:IDREF': 'a',
    'xs:language': 'de', 'xs:date': '2000-01-01', 'xs:anyURI': 'http://a',
}
PATTERN_SAMPLE = {
    'color': '#000000', 'comma-separated-text': 'a', 'smufl-accidental-glyph-name': 'accSharp',
    'smufl-coda-glyph-name': 'coda', 'smufl-lyrics-glyph-name': 'lyricsElision', 'smufl-pictogram-glyph-name': 'pictA',
    'smufl-segno-glyph-name': 'segno', 'smufl-wavy-line-glyph-name': 'wiggleTrill', 'time-only': '1',
    'yyyy-mm-dd': '2000-01-01', 'ending-number': '1',
}
REF_SAMPLE = {'ref:xml:lang': 'de', 'ref:xml:space': 'preserve', 'ref:xlink:href': 'http://a', 'ref:xlink:type': 'simple',
              'ref:xlink:role': 'a', 'ref:xlink:title': 'a', 'ref:xlink:show': 'new', 'ref:xlink:actuate': 'onLoad'}


@functools.lru_cache(maxsize=None)
def sample_value(tname):
    """a lexical string in the value space of simple type tname"""
    if tname in REF_SAMPLE:
        return REF_SAMPLE[tname]
    if tname.startswith('xs:'):
        return BUILTIN_SAMPLE[tname]
    if tname in PATTERN_SAMPLE:
        return PATTERN_SAMPLE[tname]
    f = R.st_facets(tname)
    if f['enum']:
        return f['enum'][0]
    if f['union']:
        if f['union']['members']:
            return sample_value(f['union']['members'][0])
        return f['union']['inline'][0]['enum'][0]
    base = f['base']
    v = sample_value(base)
    # numeric bounds
    lo = f['min_in'] if f['min_in'] is not None else None
    if f['min_ex'] is not None:
        lo = str(int(float(f['min_ex'])) + 1)
    if lo is not None and float(v) < float(lo):
        v = lo
    if f['max_in'] is not None and float(v) > float(f['max_in']):
        v = f['max_in']
    return v


def attr_xml(T, which='required'):
    """attribute text (leading space) for complex type T: required ones (or 'all')"""
    parts = []
    ns = ''
    for (an, at, req) in R.ctype_attrs(T):
        if which == 'required' and not req:
            continue
        parts.append(' %s=%s' % (an, quoteattr(sample_value(at))))
        if an.startswith('xlink:'):
            ns = ' xmlns:xlink="http://www.w3.org/1999/xlink"'
    return ns + ''.join(parts)


_nfa = {}


def nfa(T):
    if T not in _nfa:
        _nfa[T] = NFA(R.content_model(T))
    return _nfa[T]


@functools.lru_cache(maxsize=None)
def min_xml(name):
    """minimal valid raw XML for element `name` (shortest word, recursively; required attributes; sample text)"""
    kind, t = R.element_type(name)
    if kind == 'simple':
        return '<%s>%s</%s>' % (name, escape(sample_value(t)), name)
    attrs = attr_xml(t)
    if R.content_model(t) is not None:
        inner = ''.join(min_xml(a) for a in nfa(t).shortest_accepted())
        return '<%s%s>%s</%s>' % (name, attrs, inner, name)
    sc = R.simple_content_base(t)
    if sc:
        return '<%s%s>%s</%s>' % (name, attrs, escape(sample_value(sc)), name)
    return '<%s%s/>' % (name, attrs)


def xml_for_word(name, word, attrs=None):
    kind, t = R.element_type(name)
    a = attr_xml(t) if attrs is None else attrs
    return '<%s%s>%s</%s>' % (name, a, ''.join(min_xml(c) for c in word), name)
