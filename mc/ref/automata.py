"""Glushkov (position) automata for XSD particles, with bounded counters unrolled.

Particle AST: ('el', name, mn, mx) | ('seq'|'cho', [children], mn, mx); mx None = unbounded.
"""
import collections
import functools
import itertools


class NFA:
    def __init__(self, p):
        self.sym = {}
        self.n = 0
        nullable, first, last, follow = self._build(p)
        self.follow = {k: frozenset(v) for k, v in follow.items()}
        self.first = frozenset(first)
        self.last = frozenset(last)
        self.nullable = nullable
        self.alphabet = sorted(set(self.sym.values()))
        self._live_c = None
        self._dfa = None

    def _new(self, s):
        self.n += 1
        self.sym[self.n] = s
        return self.n

    def _build(self, p):
        kind, body, mn, mx = p

        def one():
            if kind == 'el':
                q = self._new(body)
                return False, {q}, {q}, collections.defaultdict(set)
            parts = [self._build(k) for k in body]
            fol = collections.defaultdict(set)
            for (_, _, _, f) in parts:
                for k, v in f.items():
                    fol[k] |= v
            if kind == 'cho':
                if not parts:
                    return True, set(), set(), fol
                return (any(x[0] for x in parts), set().union(*[x[1] for x in parts]),
                        set().union(*[x[2] for x in parts]), fol)
            nullable = True
            first, last = set(), set()
            for (nu, fi, la, _) in parts:
                for q in last:
                    fol[q] |= fi
                if nullable:
                    first |= fi
                last = (last | la) if nu else set(la)
                nullable = nullable and nu
            return nullable, first, last, fol

        if mx == 0:
            return True, set(), set(), collections.defaultdict(set)
        ncopies = max(mn if mx is None else mx, 1)
        copies = [one() for _ in range(ncopies)]
        fol = collections.defaultdict(set)
        for c in copies:
            for k, v in c[3].items():
                fol[k] |= v
        nullable = True
        first, last = set(), set()
        for i, (nu, fi, la, _) in enumerate(copies):
            opt = i >= mn
            nu_eff = nu or opt
            for q in last:
                fol[q] |= fi
            if nullable:
                first |= fi
            last = (last | la) if nu_eff else set(la)
            nullable = nullable and nu_eff
        if mx is None:
            nu, fi, la, _ = copies[-1]
            for q in la:
                fol[q] |= fi
        return nullable, first, last, fol

    # ------------------------------------------------------------ simulation
    def start(self):
        return frozenset([0])

    def step(self, S, a):
        out = set()
        for q in S:
            nxt = self.first if q == 0 else self.follow.get(q, ())
            for r in nxt:
                if self.sym[r] == a:
                    out.add(r)
        return frozenset(out)

    def accepting(self, S):
        return any((q == 0 and self.nullable) or q in self.last for q in S)

    def run(self, word):
        S = self.start()
        for a in word:
            S = self.step(S, a)
            if not S:
                return S
        return S

    def accepts(self, word):
        return self.accepting(self.run(word))

    def live(self):
        if self._live_c is None:
            live = set(q for q in list(self.sym) + [0] if (q in self.last) or (q == 0 and self.nullable))
            changed = True
            while changed:
                changed = False
                for q in [0] + list(self.sym):
                    if q in live:
                        continue
                    nxt = self.first if q == 0 else self.follow.get(q, ())
                    if any(r in live for r in nxt):
                        live.add(q)
                        changed = True
            self._live_c = frozenset(live)
        return self._live_c

    def is_live(self, S):
        lv = self.live()
        return any(q in lv for q in S)

    def viable_prefix(self, word):
        return self.is_live(self.run(word))

    # ------------------------------------------------------------ derived
    def dfa(self):
        """determinised, trimmed (live states only): (states list, trans dict[(i,a)]->j, accepting set)"""
        if self._dfa is None:
            idx = {self.start(): 0}
            order = [self.start()]
            trans = {}
            i = 0
            while i < len(order):
                S = order[i]
                for a in self.alphabet:
                    T = self.step(S, a)
                    if not T or not self.is_live(T):
                        continue
                    if T not in idx:
                        idx[T] = len(order)
                        order.append(T)
                    trans[(i, a)] = idx[T]
                i += 1
            acc = {i for i, S in enumerate(order) if self.accepting(S)}
            self._dfa = (order, trans, acc)
        return self._dfa

    def words(self, L, alphabet=None):
        """all accepted words of length <= L (over alphabet, default full)"""
        al = self.alphabet if alphabet is None else [a for a in self.alphabet if a in alphabet]
        out = []

        def rec(S, w):
            if self.accepting(S):
                out.append(tuple(w))
            if len(w) == L:
                return
            for a in al:
                T = self.step(S, a)
                if T and self.is_live(T):
                    w.append(a)
                    rec(T, w)
                    w.pop()

        rec(self.start(), [])
        return out

    def count_words(self, L, alphabet=None, cap=10 ** 9):
        order, trans, acc = self.dfa()
        al = set(self.alphabet if alphabet is None else alphabet)
        cur = {0: 1}
        total = 1 if 0 in acc else 0
        for _ in range(L):
            nxt = collections.Counter()
            for (i, a), j in trans.items():
                if a in al and i in cur:
                    nxt[j] += cur[i]
            cur = nxt
            total += sum(c for s, c in cur.items() if s in acc)
            if total > cap:
                return total
        return total

    def arrangements(self, multiset, limit=None):
        res = []
        ms = collections.Counter(multiset)

        def rec(S, rem, acc):
            if limit and len(res) >= limit:
                return
            if not rem:
                if self.accepting(S):
                    res.append(tuple(acc))
                return
            for a in sorted(rem):
                T = self.step(S, a)
                if T:
                    r2 = rem.copy()
                    r2[a] -= 1
                    if not r2[a]:
                        del r2[a]
                    rec(T, r2, acc + [a])

        rec(self.start(), ms, [])
        return res

    @functools.lru_cache(maxsize=200000)
    def _completable(self, key):
        ms = dict(key)
        seen = set()
        stack = [(self.start(), key)]
        while stack:
            S, remt = stack.pop()
            if (S, remt) in seen:
                continue
            seen.add((S, remt))
            if not remt and self.is_live(S):
                return True
            rem = dict(remt)
            for a in self.alphabet:
                T = self.step(S, a)
                if not T or not self.is_live(T):
                    continue
                if a in rem:
                    r2 = dict(rem)
                    r2[a] -= 1
                    if not r2[a]:
                        del r2[a]
                    stack.append((T, tuple(sorted(r2.items()))))
                stack.append((T, remt))
        return False

    def completable(self, multiset):
        """exists accepted word whose Parikh image >= multiset"""
        return self._completable(tuple(sorted(collections.Counter(multiset).items())))

    def shortest_accepted(self):
        order, trans, acc = self.dfa()
        return self.shortest_from(0)

    def shortest_from(self, s):
        """shortest word from DFA state s to acceptance"""
        order, trans, acc = self.dfa()
        if s in acc:
            return ()
        prev = {s: None}
        q = collections.deque([s])
        while q:
            i = q.popleft()
            for a in self.alphabet:
                j = trans.get((i, a))
                if j is None or j in prev:
                    continue
                prev[j] = (i, a)
                if j in acc:
                    w = []
                    k = j
                    while prev[k] is not None:
                        k, a2 = prev[k][0], prev[k][1]
                        w.append(a2)
                    return tuple(reversed(w))
                q.append(j)
        return None

    def shortest_to(self):
        """dict DFA state -> shortest word from start reaching it"""
        order, trans, acc = self.dfa()
        best = {0: ()}
        q = collections.deque([0])
        while q:
            i = q.popleft()
            for a in self.alphabet:
                j = trans.get((i, a))
                if j is None or j in best:
                    continue
                best[j] = best[i] + (a,)
                q.append(j)
        return best

    def simple_cycles(self, max_len=3):
        """simple cycles of the DFA of length <= max_len as (state, word) rooted at min state"""
        order, trans, acc = self.dfa()
        out = set()
        adj = collections.defaultdict(list)
        for (i, a), j in trans.items():
            adj[i].append((a, j))

        def rec(start, cur, word, visited):
            for a, j in adj[cur]:
                if j == start:
                    out.add((start, tuple(word + [a])))
                elif j > start and j not in visited and len(word) + 1 < max_len:
                    rec(start, j, word + [a], visited | {j})

        for s in range(len(order)):
            rec(s, s, [], {s})
        return sorted(out)


def product_equivalent(A, B):
    """language equivalence of two NFAs by BFS over the product of their subset constructions.
    returns (True, nstates) or (False, counterexample word)"""
    al = sorted(set(A.alphabet) | set(B.alphabet))
    start = (A.start(), B.start())
    seen = {start: ()}
    q = collections.deque([start])
    while q:
        SA, SB = q.popleft()
        w = seen[(SA, SB)]
        if A.accepting(SA) != B.accepting(SB):
            return False, w
        for a in al:
            TA = A.step(SA, a) if SA else frozenset()
            TB = B.step(SB, a) if SB else frozenset()
            if not TA and not TB:
                continue
            k = (TA, TB)
            if k not in seen:
                seen[k] = w + (a,)
                q.append(k)
    return True, len(seen)
