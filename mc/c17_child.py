"""child process of check C17: import, build, write, parse under the parent's chosen default text encoding."""
import os
import sys
import json
import hashlib

import builtins
_real_open = builtins.open
emulate = os.environ.get('C17_EMULATE')
if emulate:
    import io
    _open = builtins.open

    def patched(file, mode='r', buffering=-1, encoding=None, errors=None, newline=None, closefd=True, opener=None):
        if 'b' not in mode and encoding is None:
            encoding = emulate
        return _open(file, mode, buffering, encoding, errors, newline, closefd, opener)
    builtins.open = patched
    io.open = patched

out = {}
try:
    import locale
    out['_preferred'] = locale.getpreferredencoding(False)
    import musicxml.xmlelement.xmlelement as X
    from musicxml.parser.parser import parse_musicxml
    s = X.XMLScorePartwise(version='4.0')
    w = s.add_child(X.XMLWork())
    w.add_child(X.XMLWorkTitle('Bärenreiter ♭ \U0001d11e ö '))   # trailing white space: kept by the parser
    pl = s.add_child(X.XMLPartList())
    sp = pl.add_child(X.XMLScorePart(id='P1'))
    sp.add_child(X.XMLPartName(' Flöte'))
    p = s.add_child(X.XMLPart(id='P1'))
    p.add_child(X.XMLMeasure(number='1'))
    path = os.environ['C17_OUT']
    s.write(path)
    data = open(path, 'rb').read()
    out['file_sha1'] = hashlib.sha1(data).hexdigest()
    out['file_is_utf8_of_to_string'] = data == ('<?xml version="1.0" encoding="UTF-8" standalone="no"?>\n' + s.to_string()).encode('utf-8')
    t = parse_musicxml(path)
    out['reparsed_sha1'] = hashlib.sha1(t.to_string().encode('utf-8')).hexdigest()
    out['reparsed_equal'] = t.to_string() == s.to_string()
except Exception as e:
    out['exception'] = type(e).__name__ + ': ' + str(e)[:150]
out['_stdout_encoding'] = getattr(sys.stdout, 'encoding', None)
# the result goes to a file, not to stdout: whatever the library itself writes to stdout / stderr is an observation
with _real_open(os.environ['C17_RESULT'], 'wb') as fh:
    fh.write(json.dumps(out).encode('utf-8'))

