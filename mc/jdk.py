"""Client for the JDK schema validator helper (java/Validate.java).  Batched: one JVM per call."""
import os
import subprocess
from mc import core

JAVA_DIR = os.path.join(core.VERIF, 'java')
DERIVED = os.path.join(core.VERIF, 'spec', 'derived')
IGNORED_CODES = ('cvc-id.1', 'cvc-id.2', 'cvc-id.3')  # document-level identity constraints (outside the properties)


def available():
    return os.path.exists(os.path.join(JAVA_DIR, 'Validate.class')) and os.path.exists(os.path.join(DERIVED, 'fragments.xsd'))


def validate(docs, schema='fragments.xsd'):
    """docs: list of XML texts (each one document) -> list of (valid: bool, codes: list[str], message)"""
    if not available():
        raise core.InternalError('JDK validator helper not built: run ./check setup')
    lines = []
    for d in docs:
        d = d.strip()
        if d.startswith('<?xml'):
            d = d[d.index('?>') + 2:].strip()
        lines.append(d.replace('\r', '&#13;').replace('\n', '&#10;'))
    p = subprocess.run(['java', '-Xss16m', '-cp', JAVA_DIR, 'Validate', os.path.join(DERIVED, schema)],
                       input=('\n'.join(lines) + '\n').encode('utf-8'), capture_output=True)
    out = p.stdout.decode('utf-8').split('\n')
    if p.returncode != 0 or len(out) < len(lines):
        raise core.InternalError('JDK validator failed: ' + p.stderr.decode('utf-8', 'replace')[:500])
    res = []
    for i in range(len(lines)):
        ln = out[i]
        if ln == 'V':
            res.append((True, [], ''))
        else:
            head, _, msg = ln[2:].partition('\t')
            raw = head.split(',')
            codes = []
            skip = False
            for c in raw:
                if c in IGNORED_CODES:
                    skip = True   # Xerces follows an identity error with a paired cvc-attribute.3
                    continue
                if skip and c == 'cvc-attribute.3':
                    skip = False
                    continue
                skip = False
                codes.append(c)
            res.append((not codes, codes, msg))
    return res
