"""Shared runner machinery: environment assertions, violation records, known-findings matching,
evidence files, replay files, worker pool."""
import os
import sys
import json
import time
import hashlib
import subprocess
import multiprocessing

VERIF = os.path.dirname(os.path.dirname(os.path.abspath(__file__)))
SRC_ROOT = os.environ.get('MUSICXML_SRC', '/repo')
EVIDENCE_DIR = os.path.join(VERIF, 'evidence')
REPLAY_DIR = os.path.join(VERIF, 'replays')
FINDINGS_FILE = os.path.join(VERIF, 'known_findings.jsonl')
WITNESS_DIR = os.path.join(VERIF, 'known_witnesses')
MAX_REPORT = 40  # VIOLATION lines / replay files written per run (all are counted)

LEVEL = 'model_checking'


class InternalError(Exception):
    """the machinery (not the library) is in doubt: exit 2, never a VIOLATION line"""


def jkey(obj):
    """canonical JSON text of a key (tuples -> lists, sorted dict keys)"""
    return json.dumps(obj, sort_keys=True, ensure_ascii=True, separators=(',', ':'), default=_default)


def _default(o):
    if isinstance(o, (set, frozenset)):
        return sorted(o)
    if isinstance(o, bytes):
        return o.decode('latin-1')
    return repr(o)


def assert_source_root():
    import musicxml
    f = os.path.realpath(musicxml.__file__)
    root = os.path.realpath(SRC_ROOT)
    if not f.startswith(root + os.sep):
        raise InternalError(f"musicxml imported from {f}, expected under {root}")
    return root


def git_describe(root):
    try:
        return subprocess.run(['git', '-C', root, 'describe', '--always', '--dirty'], capture_output=True, text=True,
                              timeout=20).stdout.strip()
    except Exception:
        return 'unknown'


# ---------------------------------------------------------------- findings

def load_findings():
    """returns (findings dict id->record, index dict (property, scope, kind, jkey) -> finding id)"""
    findings, index = {}, {}
    if not os.path.exists(FINDINGS_FILE):
        return findings, index
    for line in open(FINDINGS_FILE, encoding='utf-8'):
        line = line.strip()
        if not line or line.startswith('#') or line.startswith('fixed:'):
            continue
        rec = json.loads(line)
        if rec.get('status', 'open') != 'open':
            continue
        findings[rec['id']] = rec
        wf = os.path.join(WITNESS_DIR, rec['id'] + '.jsonl')
        if os.path.exists(wf):
            for wl in open(wf, encoding='utf-8'):
                wl = wl.strip()
                if not wl:
                    continue
                w = json.loads(wl)
                index[(rec['property'], w['scope'], w['kind'], jkey(w['key']))] = rec['id']
    return findings, index


class Run:
    def __init__(self, pid, tier):
        self.pid = pid
        self.tier = tier
        self.t0 = time.time()
        self.seed = int(os.environ.get('VERIF_SEED', '0') or 0)
        self.violations = {}  # (scope, kind, jkey) -> record (first seen)
        self.counts = {}
        self.src_root = assert_source_root()
        self.assumptions = []
        self.notes = {}

    def violation(self, scope, kind, key, **detail):
        k = (scope, kind, jkey(key))
        self.counts[k] = self.counts.get(k, 0) + 1
        if k not in self.violations:
            rec = {'property': self.pid, 'scope': scope, 'kind': kind, 'key': json.loads(jkey(key))}
            rec.update(detail)
            self.violations[k] = rec

    def add_violations(self, recs):
        for r in recs:
            r = dict(r)
            scope, kind, key = r.pop('scope'), r.pop('kind'), r.pop('key')
            r.pop('property', None)
            self.violation(scope, kind, key, **r)

    # ------------------------------------------------------------
    def finish(self, coverage, level=LEVEL, guard_errors=()):
        """match findings, write replays + evidence, print lines, return exit code"""
        findings, index = load_findings()
        known = {}
        new = []
        for k in sorted(self.violations):
            rec = self.violations[k]
            fid = index.get((self.pid, k[0], k[1], k[2]))
            if fid is not None:
                known.setdefault(fid, []).append(rec)
            else:
                new.append(rec)
        rdir = os.path.join(REPLAY_DIR, self.pid)
        os.makedirs(rdir, exist_ok=True)
        # remove stale replay files of earlier runs of this property
        for f in os.listdir(rdir):
            if f.endswith('.json'):
                try:
                    os.unlink(os.path.join(rdir, f))
                except OSError:
                    pass
        for fid in sorted(known):
            f = findings[fid]
            print(f"KNOWN-FINDING: property={self.pid} {fid} {f.get('what', f.get('description', ''))} "
                  f"[{len(known[fid])} listed keys met]")
        for i, rec in enumerate(new):
            if i >= MAX_REPORT:
                break
            h = hashlib.sha1(jkey([rec['scope'], rec['kind'], rec['key']]).encode()).hexdigest()[:16]
            path = os.path.join(rdir, h + '.json')
            rec2 = dict(rec)
            rec2['tier'] = self.tier
            with open(path, 'w', encoding='utf-8') as fh:
                json.dump(rec2, fh, indent=1, default=_default, ensure_ascii=False)
            print(f"VIOLATION property={self.pid} replay={path}")
            print(f"  scope={rec['scope']} kind={rec['kind']} key={jkey(rec['key'])[:300]}")
        if len(new) > MAX_REPORT:
            print(f"... {len(new) - MAX_REPORT} further new violations not written out (total new: {len(new)})")
        # dump all (known + new) for the findings tool
        if os.environ.get('VERIF_DUMP'):
            with open(os.environ['VERIF_DUMP'], 'a', encoding='utf-8') as fh:
                for k in sorted(self.violations):
                    rec = dict(self.violations[k])
                    rec['tier'] = self.tier
                    fh.write(json.dumps(rec, default=_default, ensure_ascii=False) + '\n')
        cov = dict(coverage)
        cov.setdefault('violating_keys_total', len(self.violations))
        cov.setdefault('violating_keys_known', len(self.violations) - len(new))
        cov.setdefault('violating_keys_new', len(new))
        cov.setdefault('known_findings_met', sorted(known))
        ev = {
            'property_id': self.pid, 'tier': self.tier, 'seed': self.seed, 'level': level,
            'coverage': cov,
            'assumptions': self.assumptions,
            'wall_s': round(time.time() - self.t0, 2),
            'violations': len(new),
            'source_root': self.src_root,
            'source_version': git_describe(self.src_root),
        }
        ev.update(self.notes)
        os.makedirs(EVIDENCE_DIR, exist_ok=True)
        tmp = os.path.join(EVIDENCE_DIR, f'.{self.pid}.{os.getpid()}.tmp')
        with open(tmp, 'w', encoding='utf-8') as fh:
            json.dump(ev, fh, indent=1, default=_default, ensure_ascii=False)
        os.replace(tmp, os.path.join(EVIDENCE_DIR, self.pid + '.json'))
        if guard_errors and not new:
            for g in guard_errors:
                print(f"INTERNAL-ERROR property={self.pid} vacuity guard: {g}", file=sys.stderr)
            return 2
        for g in guard_errors:
            # violations were found: a degenerate remainder of the run does not take precedence over them
            print(f"note: property={self.pid} vacuity guard (not decisive, violations reported): {g}", file=sys.stderr)
        print(f"{self.pid} {self.tier}: {cov.get('transitions', cov.get('evaluations', 0))} transitions/evaluations, "
              f"{len(self.violations)} violating keys ({len(new)} new), {ev['wall_s']} s")
        return 1 if new else 0


# ---------------------------------------------------------------- pool

def nworkers():
    return int(os.environ.get('VERIF_WORKERS', '0') or 0) or min(16, os.cpu_count() or 4)


def pmap(fn, tasks, chunksize=1):
    """ordered parallel map on a fork pool (workers inherit the imported library, never share objects)"""
    tasks = list(tasks)
    n = nworkers()
    if n <= 1 or len(tasks) <= 1:
        return [fn(t) for t in tasks]
    ctx = multiprocessing.get_context('fork')
    with ctx.Pool(n, maxtasksperchild=None) as pool:
        return pool.map(fn, tasks, chunksize=chunksize)
