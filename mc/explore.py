"""Breadth-first, replay-based exploration of one element type's operation histories on the REAL objects.

A state is the history reaching it; states are deduplicated by the generic object-graph canonical form G.
Depth is chosen per type by a transition budget: a level is completed or not started.
"""
import os
import collections

from mc import impl
from mc.impl import nfa, build, apply, G
from mc.ref import xsd as R

# ---------------------------------------------------------------- alphabets (rule R1)

_sigma_cache = {}


def leaf_counts(p, c=None):
    c = collections.Counter() if c is None else c
    if p[0] == 'el':
        c[p[1]] += 1
    else:
        for k in p[1]:
            leaf_counts(k, c)
    return c


def reduced_alphabet(T):
    """R1: inside one parent particle, a maximal run of > 3 consecutive leaf elements with identical occurrence
    bounds whose names occur nowhere else in the type is represented by its first, middle and last member."""
    if T in _sigma_cache:
        return _sigma_cache[T]
    p = R.content_model(T)
    counts = leaf_counts(p)
    drop = set()

    def walk(q):
        if q[0] == 'el':
            return
        kids = q[1]
        i = 0
        while i < len(kids):
            j = i
            while j < len(kids) and kids[j][0] == 'el' and counts[kids[j][1]] == 1 and kids[i][0] == 'el' and \
                    kids[j][2:] == kids[i][2:]:
                j += 1
            if j - i > 3:
                run = kids[i:j]
                keep = {0, len(run) // 2, len(run) - 1}
                for n, k in enumerate(run):
                    if n not in keep:
                        drop.add(k[1])
            i = max(j, i + 1)
        for k in kids:
            walk(k)

    walk(p)
    sig = [a for a in nfa(T).alphabet if a not in drop]
    _sigma_cache[T] = sig
    return sig


def forward_alphabet(T):
    """symbols with several same-name leaves (the only ones `forward` can address) plus the first leaf of every choice
    branch (the symbols that commit a choice); None if the type has no multi-leaf symbol"""
    m = leaf_multiplicity(T)
    M = {a for a, c in m.items() if c > 1}
    if not M:
        return None
    h = set()

    def heads(p):
        if p[0] == 'el':
            return
        if p[0] == 'cho':
            for k in p[1]:
                q = k
                while q[0] != 'el' and q[1]:
                    q = q[1][0]
                if q[0] == 'el':
                    h.add(q[1])
        for k in p[1]:
            heads(k)
    heads(R.content_model(T))
    return [a for a in nfa(T).alphabet if a in M or a in h]


def deep_alphabet(T):
    """forward_alphabet plus three representatives (first, middle, last) of the remaining symbols: a small mixed
    alphabet that lets the types with repeated names be explored two levels deeper"""
    fa = forward_alphabet(T)
    if not fa:
        return None
    rest = [a for a in reduced_alphabet(T) if a not in fa]
    reps = [rest[0], rest[len(rest) // 2], rest[-1]] if len(rest) > 3 else rest
    keep = set(fa) | set(reps)
    return [a for a in nfa(T).alphabet if a in keep]


def rename_map(T):
    """full symbol -> its R1 representative (nearest kept member of its run)"""
    p = R.content_model(T)
    sig = set(reduced_alphabet(T))
    out = {}

    def walk(q):
        if q[0] == 'el':
            return
        kids = q[1]
        last_kept = None
        pending = []
        for k in kids:
            if k[0] == 'el':
                if k[1] in sig:
                    out[k[1]] = k[1]
                    for pnd in pending:
                        out.setdefault(pnd, k[1])
                    pending = []
                    last_kept = k[1]
                else:
                    if last_kept is not None:
                        out[k[1]] = last_kept
                    else:
                        pending.append(k[1])
            else:
                walk(k)

    walk(p)
    return out


def _r1_signature(T, hist, ren=None):
    st = build(T, [('A', a) for a in hist])
    ok = [o.brief() for o in st.outcomes]
    s = impl.serialise(st.el)
    names = [c.name for c in st.el.get_children(ordered=True)]
    if ren:
        names = [ren.get(n, n) for n in names]
    return (tuple(ok), s[0] if s[0] == 'ok' else (s[0], s[1]), tuple(names))


def r1_invariance(T):
    """rule R1 is an assumption: check it at depth <= 2 with the FULL alphabet - every history of additions must
    have the same outcomes as its image under the renaming symbol -> representative (where the renaming is injective
    on the history).  returns (instances checked, list of failing histories)"""
    full = nfa(T).alphabet
    red = reduced_alphabet(T)
    if len(full) == len(red):
        return 0, []
    ren = rename_map(T)
    fails = []
    n = 0
    import itertools
    for k in (1, 2):
        for h in itertools.product(full, repeat=k):
            if all(a in red for a in h):
                continue
            img = tuple(ren.get(a, a) for a in h)
            if len(set(img)) != len(set(h)):
                continue
            n += 1
            if _r1_signature(T, h, ren) != _r1_signature(T, img):
                fails.append(list(h))
    return n, fails


def r1_prepare():
    """run the R1 invariance check for all types (parallel); a type that fails falls back to its full alphabet.
    returns evidence dict"""
    from mc import core
    res = core.pmap(r1_invariance, impl.TYPES)
    total = 0
    fallback = {}
    for T, (n, fails) in zip(impl.TYPES, res):
        total += n
        if fails:
            fallback[T] = fails[:3]
            _sigma_cache[T] = list(nfa(T).alphabet)
    return {'r1_instances_checked': total, 'r1_types_falling_back_to_full_alphabet': fallback}


_multi_leaf = {}


def leaf_multiplicity(T):
    """symbol -> number of same-name leaves in the content model (for the `forward` argument)"""
    if T not in _multi_leaf:
        _multi_leaf[T] = leaf_counts(R.content_model(T))
    return _multi_leaf[T]


# ---------------------------------------------------------------- operation menus

PROFILES = {
    'adds': ('A', 'F', 'S'),
    'full': ('A', 'F', 'R', 'Xs', 'P', 'S'),
    'addrem': ('A', 'F', 'R', 'Xn', 'S'),
    'addrem-noS': ('A', 'F', 'R', 'Xn'),
    'misuse': ('A', 'F', 'R', 'Xs', 'P', 'X', 'S'),
    'fail': ('A', 'F', 'R', 'Xs', 'P', 'X', 'At', 'S'),
    'ser': ('A', 'F', 'R', 'Xs', 'P', 'Sc', 'S'),
    'norem': ('A', 'F', 'Ps', 'S'),
    'fwd': ('A', 'F', 'R', 'S'),
    'deep': ('A', 'R', 'S'),
    'toggle': ('A', 'R', 'Ps', 'T', 'S'),     # xsd_check switched off and on through the setter between operations
    # "tail" profiles (name starts with 'x'): the frontier is extended ONLY by successful additions (A / F); every other
    # operation of the menu (and every failing addition) is executed and judged in each reached state but not
    # continued.  Reaches states 5-7 additions deep; what is not explored: histories with a removal / replacement /
    # failing call / serialisation in the MIDDLE (those are the ordinary profiles' business, at their smaller depth).
    'xfull': ('A', 'F', 'R', 'Xs', 'P', 'S'),
    'xaddrem': ('A', 'F', 'R', 'Xn', 'S'),
    'xaddrem-noS': ('A', 'F', 'R', 'Xn'),
    'xmisuse': ('A', 'F', 'R', 'Xs', 'P', 'X', 'S'),
    'xfail': ('A', 'F', 'R', 'Xs', 'P', 'X', 'At', 'S'),
    'xser': ('A', 'F', 'R', 'Xs', 'P', 'Sc', 'S'),
}


def is_tail(profile):
    return profile.startswith('x')

_bad_attr = {}


def failing_attr_ops(T):
    """attribute / value assignments that must fail (for C10): undeclared name; declared enumerated or numeric
    attribute with a value outside its type; a value outside the simple content type"""
    if T in _bad_attr:
        return _bad_attr[T]
    ops = [('At', 'bogus_attribute', 'x')]
    for (an, at, req) in R.ctype_attrs(T):
        if ':' in an or not at or at.startswith('xs:') or at not in R.STYPES:
            continue
        f = R.st_facets(at)
        if f['enum'] or R.st_root_builtin(at) in ('xs:decimal', 'xs:integer', 'xs:positiveInteger',
                                                    'xs:nonNegativeInteger'):
            ops.append(('At', an.replace('-', '_'), 'no-such-value-xyz'))
            break
    ops.append(('V', ('not', 'a', 'value')))
    _bad_attr[T] = ops
    return ops


def ops_for(T, names, model_idx, profile, sigma, foreign=None):
    """operations enabled in a state.  names: names of held children (insertion order);
    model_idx: their creation indices."""
    kinds = PROFILES[profile]
    ops = []
    mult = leaf_multiplicity(T)
    present = []
    for n in names:
        if n not in present and n in sigma:
            present.append(n)
    if 'A' in kinds:
        for a in sigma:
            ops.append(('A', a))
    if 'F' in kinds:
        for a in sigma:
            if mult[a] > 1:
                for k in range(min(mult[a], 3)):
                    ops.append(('F', a, k))
    if 'R' in kinds:
        for i in model_idx:
            ops.append(('R', i))
    if 'Xs' in kinds:
        for a in present:
            ops.append(('Xs', a, 'inst'))
            ops.append(('Xs', a, 'none'))
    if 'Xn' in kinds:
        for a in present:
            ops.append(('Xs', a, 'none'))
    if 'P' in kinds:
        for i in model_idx:
            for a in sigma:
                ops.append(('P', i, a))
    if 'Ps' in kinds:
        for i, n in zip(model_idx, names):
            ops.append(('P', i, n))
    if 'X' in kinds:
        f = foreign or 'fifths'
        ops += [('Ax', 'foreign', f), ('Ax', 'nonelement'), ('Ax', 'none'), ('Rx', 'detached', f), ('Rx', 'none'),
                ('Rx', 'others', sigma[0]), ('Ax', 'others', sigma[0]), ('Ax', 'others', sigma[-1]),
                ('Px', 'old-missing', f), ('Px', 'new-bad')]
        for a in sigma[:1]:
            ops.append(('Fx', a, 99))
            ops.append(('Fx', a, mult[a]))         # exactly one past the last same-name leaf
            ops.append(('Fx', a, -mult[a] - 1))
    if 'T' in kinds:
        ops += [('T', False), ('T', True)]
    if 'At' in kinds:
        ops += failing_attr_ops(T)
    if 'Sc' in kinds:
        for i in model_idx[:2]:
            ops.append(('Sc', i, False))
    if 'S' in kinds:
        ops.append(('S', False))
        ops.append(('S', True))
    return ops


def pick_foreign(T):
    al = set(nfa(T).alphabet)
    for c in ('fifths', 'step', 'beats'):
        if c not in al:
            return c
    return 'octave'


# ---------------------------------------------------------------- BFS (level-synchronous, parallel)

class Pre:
    """what the oracles may know about the state before the transition"""
    __slots__ = ('names', 'knames', 'model', 'hist')

    def __init__(self, st, hist):
        self.names = st.names()
        self.knames = st.knames()     # for violation keys: a child placed with forward=k is written 'name@k'
        self.model = list(st.model)
        self.hist = hist


class _FakePre:
    def __init__(self, h):
        self.hist, self.names, self.knames, self.model = h, [], [], []


class Spec:
    """one exploration: element type, operation profile, transition budget, oracle factory name"""

    def __init__(self, T, profile, budget, oname, check=True, child_mode='opaque', sigma=None, max_depth=8,
                 el_name=None):
        self.T, self.profile, self.budget, self.oname = T, profile, budget, oname
        self.check, self.child_mode, self.max_depth, self.el_name = check, child_mode, max_depth, el_name
        self.sigma = sigma if sigma is not None else reduced_alphabet(T)
        self.foreign = pick_foreign(T)
        self.key = '%s/%s%s' % (T, profile, '' if check else '!unchecked')
        self.tag = None


CHUNK = 60
_ORACLE_FACTORY = None   # set by the caller before forking: name -> factory(collector) -> on_transition


def _expand(arg):
    """worker: expand a chunk of (history, op) pairs of one spec"""
    spec, items, want_g = arg
    col = _ORACLE_FACTORY['collector']()
    orc = _ORACLE_FACTORY[spec.oname](col)
    out = []
    for (h, op) in items:
        try:
            st = build(spec.T, h, spec.check, spec.child_mode, spec.el_name)
        except Exception as e:
            # a fresh element of this type cannot even be constructed / the recorded history cannot be replayed
            col.add(spec.T, 'replay-raises', [[list(x) for x in h], type(e).__name__], _FakePre(h), op)
            if want_g:
                out.append(('replay-raises:%s' % type(e).__name__, [], []))
            continue
        pre = Pre(st, h)
        o = apply(st, op, spec.child_mode)
        if want_g:
            if is_tail(spec.profile) and not (op[0] in ('A', 'F') and o.ok):
                out.append((None, [], []))     # judged, not continued
            else:
                out.append((G(st), st.names(), list(st.model)))
        orc(spec.T, pre, op, st, o)
    return out, col.vio, dict(col.stats)


def run_bfs(specs, factories):
    """level-synchronous BFS of all specs at once on one worker pool.
    returns {spec.key: stats}, with stats['vio'] and stats['ostats'] merged deterministically"""
    global _ORACLE_FACTORY
    from mc import core
    _ORACLE_FACTORY = factories
    S = {}
    for sp in specs:
        try:
            g0 = G(build(sp.T, [], sp.check, sp.child_mode, sp.el_name))
        except Exception as e:
            g0 = 'construction-raises:' + type(e).__name__
        S[sp.key] = {'spec': sp, 'seen': {g0}, 'frontier': [((), [], [])], 'transitions': 0, 'depth': 0,
                     'per_level': [1], 'capped': False, 'vio': [], 'viokeys': set(), 'ostats': collections.Counter(),
                     'active': True, 'closing': 0}

    def merge(d, vio, stats):
        for v in vio:
            k = (v['scope'], v['kind'], core.jkey(v['key']))
            if k not in d['viokeys']:
                d['viokeys'].add(k)
                d['vio'].append(v)
        for k, v in stats.items():
            d['ostats'][k] += v

    while any(d['active'] for d in S.values()):
        tasks = []
        for key in sorted(S):
            d = S[key]
            if not d['active']:
                continue
            sp = d['spec']
            menus = [ops_for(sp.T, names, midx, sp.profile, sp.sigma, sp.foreign) for (_, names, midx) in d['frontier']]
            est = sum(len(m) for m in menus)
            if not d['frontier'] or d['depth'] >= sp.max_depth or (d['depth'] >= 1 and d['transitions'] + est > sp.budget):
                d['capped'] = bool(d['frontier']) and d['depth'] < sp.max_depth
                d['active'] = False
                continue
            items = [(h, op) for (h, _, _), menu in zip(d['frontier'], menus) for op in menu]
            d['pending'] = items
            for i in range(0, len(items), CHUNK):
                tasks.append((key, i, (sp, items[i:i + CHUNK], True)))
        if not tasks:
            break
        import time as _t
        _t0 = _t.time()
        res = core.pmap(_expand, [t[2] for t in tasks])
        if os.environ.get('VERIF_DEBUG'):
            print('round', len(tasks), 'tasks', round(_t.time() - _t0, 1), 's', flush=True)
        nxt = collections.defaultdict(list)
        for (key, i, _), (out, vio, stats) in zip(tasks, res):
            d = S[key]
            items = d['pending'][i:i + CHUNK]
            for (h, op), (g, names, midx) in zip(items, out):
                d['transitions'] += 1
                if g is None:
                    continue
                if g not in d['seen']:
                    d['seen'].add(g)
                    nxt[key].append((h + (op,), names, midx))
            merge(d, vio, stats)
        for key in sorted(S):
            d = S[key]
            if d['active']:
                d['frontier'] = nxt.get(key, [])
                d['depth'] += 1
                d['per_level'].append(len(d['frontier']))
                d.pop('pending', None)
    # closing level: serialisation only, on the states of the last completed level
    tasks = []
    for key in sorted(S):
        d = S[key]
        sp = d['spec']
        items = [(h, op) for (h, _, _) in d['frontier'] for op in (('S', False), ('S', True))] \
            if 'S' in PROFILES[sp.profile] else []
        if is_tail(sp.profile):
            # tail profiles: the deepest states also get every non-addition operation once (if that fits the budget)
            full = [(h, op) for (h, names, midx) in d['frontier']
                    for op in ops_for(sp.T, names, midx, sp.profile, sp.sigma, sp.foreign) if op[0] not in ('A', 'F')]
            if len(full) <= sp.budget:
                items = full
                d['closing_full_menu'] = True
        d['pending'] = items
        for i in range(0, len(items), CHUNK * 2):
            tasks.append((key, i, (sp, items[i:i + CHUNK * 2], False)))
    if tasks:
        res = core.pmap(_expand, [t[2] for t in tasks])
        for (key, i, a), (out, vio, stats) in zip(tasks, res):
            d = S[key]
            d['closing'] += len(a[1])
            merge(d, vio, stats)
    out = {}
    for key, d in S.items():
        sp = d['spec']
        out[key] = {'T': sp.T, 'profile': (sp.tag or sp.profile) + ('' if sp.check else '!unchecked'), 'depth': d['depth'], 'states': len(d['seen']),
                    'transitions': d['transitions'] + d['closing'], 'per_level': d['per_level'],
                    'capped_by_budget': d['capped'], 'sigma': len(sp.sigma), 'sigma_full': len(nfa(sp.T).alphabet),
                    'frontier_left': len(d['frontier']), 'vio': d['vio'], 'ostats': dict(d['ostats']),
                    'closing_full_menu': d.get('closing_full_menu', False)}
    return out
