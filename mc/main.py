import sys
import json
import importlib
import traceback


def main(argv):
    if not argv:
        print(__doc__ or 'usage: check <Cxx> quick|thorough | setup | replay <file> | selftest')
        return 2
    cmd = argv[0]
    if cmd == 'setup':
        from mc import setup
        return setup.main()
    if cmd == 'selftest':
        from mc import setup
        return setup.selftest()
    if cmd == 'replay':
        rec = json.load(open(argv[1], encoding='utf-8'))
        mod = importlib.import_module('mc.checks.' + rec['property'])
        from mc import core
        core.assert_source_root()
        rep = mod.replay(rec)
        print(json.dumps(rep, indent=1, default=repr, ensure_ascii=False))
        return 1 if rep.get('reproduced') else 0
    pid = cmd
    tier = argv[1] if len(argv) > 1 else 'quick'
    if tier not in ('quick', 'thorough'):
        print('tier must be quick or thorough')
        return 2
    mod = importlib.import_module('mc.checks.' + pid)
    from mc import core
    try:
        return mod.run(tier)
    except core.InternalError as e:
        print(f'INTERNAL-ERROR property={pid} {e}', file=sys.stderr)
        return 2
    except Exception:
        traceback.print_exc()
        print(f'INTERNAL-ERROR property={pid} harness crashed', file=sys.stderr)
        return 2


if __name__ == '__main__':
    sys.exit(main(sys.argv[1:]))
