"""Fingerprint-based oracles on the structural exploration: C10 (failed call changes nothing),
C11 (removal restores), C16(b) (serialisation is side-effect free and repeatable).

"Observably the same" = equal Phi_k (mc.impl.phi): views, parents, attributes, value, serialisation or refusal
verdict, and - for every symbol of the alphabet - the outcome of adding it and Phi_{k-1} afterwards.
Fingerprints are computed by replay on fresh objects, never on the explored object."""
import os

from mc import impl, explore
from mc.structcheck import Collector, opj, ORACLES, FACTORIES

K = {'quick': 1, 'thorough': 1}


def _k():
    return int(os.environ.get('VERIF_PHI_K', '1'))


class PhiCache:
    def __init__(self, cap=64):
        self.d = {}
        self.cap = cap

    def get(self, T, hist, sigma):
        key = (T, hist)
        if key not in self.d:
            if len(self.d) >= self.cap:
                self.d.clear()
            self.d[key] = impl.phi(T, list(hist), _k(), sigma)
        return self.d[key]


def first_diff(a, b, path=''):
    """human-readable location of the first difference between two fingerprints"""
    if type(a) != type(b):
        return path + ': %r != %r' % (a, b)
    if isinstance(a, tuple):
        if len(a) != len(b):
            return path + ': length %d != %d' % (len(a), len(b))
        for i, (x, y) in enumerate(zip(a, b)):
            d = first_diff(x, y, path + '/%d' % i)
            if d:
                return d
        return None
    if a != b:
        return path + ': %r != %r' % (a if not isinstance(a, str) else a[:120], b if not isinstance(b, str) else b[:120])
    return None


def diff_path(a, b):
    d = first_diff(a, b)
    return d.split(':', 1)[0] if d else ''


def oracle_C10(col):
    cache = PhiCache()

    def f(T, pre, op, st, o):
        if o.ok or o.hang:
            col.stats['successful_calls'] += 1
            return
        col.stats['failing_calls'] += 1
        col.stats['fail:' + op[0]] += 1
        if o.side:
            col.add(T, 'failed-call-observable', [pre.knames, opj(op), o.exc, o.side], pre, op, outcome=o.as_json())
        sigma = explore.reduced_alphabet(T)
        before = cache.get(T, tuple(pre.hist), sigma)
        after = impl.phi(T, list(pre.hist) + [op], _k(), sigma)
        if before != after:
            col.add(T, 'failed-call-observable', [pre.knames, opj(op), o.exc, diff_path(before, after)], pre, op,
                    difference=first_diff(before, after), outcome=o.as_json())
    return f


def twin_history(st):
    """additions that rebuild the currently held children in the same relative order"""
    return [st.how[i] for i in st.model]


def oracle_C11(col):
    def f(T, pre, op, st, o):
        if not o.ok:
            return
        if not (op[0] == 'R' or (op[0] == 'Xs' and op[2] == 'none')):
            return
        if st.names() == pre.names:
            return  # nothing was removed (xml_x = None on an absent child)
        col.stats['removals'] += 1
        sigma = explore.reduced_alphabet(T)
        th = twin_history(st)
        twin = impl.build(T, th)
        if not all(x.ok for x in twin.outcomes):
            col.stats['twin_not_buildable'] += 1
            return
        col.stats['removals_judged'] += 1
        a = impl.phi(T, list(pre.hist) + [op], _k(), sigma)
        b = impl.phi(T, th, _k(), sigma)
        if a != b:
            removed = [n for n in pre.names]
            for n in st.names():
                removed.remove(n)
            col.add(T, 'removal-not-restoring', [pre.knames, opj(op), diff_path(b, a)], pre, op, difference=first_diff(b, a),
                    twin=[list(x) for x in th], removed=removed)
    return f


def oracle_C16b(col):
    cache = PhiCache()

    def f(T, pre, op, st, o):
        if op[0] not in ('S', 'Sc') or not o.ok:
            return
        col.stats['successful_serialisations'] += 1
        sigma = explore.reduced_alphabet(T)
        before = cache.get(T, tuple(pre.hist), sigma)
        after = impl.phi(T, list(pre.hist) + [op], _k(), sigma)
        if before != after:
            col.add(T, 'serialisation-side-effect', [pre.knames, opj(op), diff_path(before, after)], pre, op,
                    difference=first_diff(before, after))
        # repeatability on the same object: a second and third call return the same text
        o2 = impl.call(st.el.to_string)
        o3 = impl.call(st.el.to_string)
        if op == ('S', False) and (not o2.ok or o2.value != o.value or not o3.ok or o3.value != o.value):
            col.add(T, 'nondeterministic', [pre.knames, opj(op)], pre, op,
                    observed=[o.value, o2.value if o2.ok else o2.exc, o3.value if o3.ok else o3.exc])
    return f


ORACLES.update({'C10': oracle_C10, 'C11': oracle_C11, 'C16b': oracle_C16b})
FACTORIES.update({'C10': oracle_C10, 'C11': oracle_C11, 'C16b': oracle_C16b})
